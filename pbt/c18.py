"""
C18 - The subscription manager owns exactly what it created and removes
exactly that.  DESIGN.md 4.18.

Two sub-checks:

* ``history``: a model-based history machine.  1-2 mock WBEM servers
  (FakedWBEMConnection with Interop namespace, namespace provider and the
  three subscription providers, DMTF classes compiled from the repository's
  test schema) and 1-3 WBEMSubscriptionManager objects with generated IDs
  run a generated sequence of add/remove destination, filter, subscription
  and server calls, client restarts and foreign (static) instance creations.
  The model predicts, from the method docstrings, the outcome of every call
  and the set of instances each manager owns; after every step the owned
  lists, the get_all_* results and the Interop instance store of every
  server are compared with the model.

  Blocked cleanups: other clients (and other managers) also subscribe to
  filters/destinations a manager owns.  The server then refuses to delete
  that filter/destination, so remove_server(), remove_all_servers() and the
  context manager exit of the owner fail with CIM_ERR_FAILED half way.  What
  such a failed cleanup has already deleted is not documented; the model is
  re-synchronised from the servers (only owned instances of the acting
  manager may be gone) and from then on the owned lists must again equal the
  owned instances that are left, and a repeated cleanup after the blocking
  subscription is gone must succeed and delete exactly the rest.  The step
  generator steers towards these situations (blocker, cleanup, unblock,
  retry).

  Twins: instance paths carry no host and the mock servers use the same
  SystemName, so the same filter ID, destination ID or (filter, destination)
  pair of one manager on two servers gives equal instance paths.  With two
  servers the generator steers a manager to register both, to repeat on one
  server the add_* calls of what it owns on the other one, and to remove a
  twin explicitly on one server only; the owned lists are compared per
  server, so the other server's list must keep its instance.

* ``idpairs``: a fixed scenario (A creates, B with another ID registers,
  creates and deregisters, A restarts and rediscovers, A deregisters) run
  over many generated pairs of manager IDs; it covers the ID space much more
  densely than the histories do.
"""

import os
import re
import glob

from hypothesis import strategies as st

import pywbem
from pywbem import (CIMInstance, CIMInstanceName, CIMError, WBEMServer,
                    WBEMSubscriptionManager, CIM_ERR_FAILED,
                    CIM_ERR_ALREADY_EXISTS, CIM_ERR_NOT_FOUND)
from pywbem_mock import FakedWBEMConnection
from pywbem_mock.config import (OBJECTMANAGERCREATIONCLASSNAME,
                                SYSTEMCREATIONCLASSNAME, OBJECTMANAGERNAME,
                                SYSTEMNAME)

from .runner import Sub, REPO, HarnessError
from .normalize import canon, Opts, diff_path

PROPERTY = 'C18'
RULE = (
    "history: init = 1-3 distinct manager IDs (printable text without ':'; "
    "pools of plain, blank, non-ASCII and regex-metacharacter IDs plus random "
    "printable text; second/third IDs are with high probability derived from "
    "an earlier one: prefix, extension, case variant, one character replaced "
    "by '.', quantifier/group/alternation added, or a literal that the "
    "earlier ID matches as a regular expression) + 1-2 mock servers; steps "
    "= add_server, add_destination / add_filter (owned and permanent, "
    "generated ids and names incl. near-misses of the ownership marker, all "
    "documented listener URL forms, duplicate names, duplicate URLs), "
    "add_subscriptions (owned/permanent, destination None / path / list), "
    "remove_subscriptions / remove_filter / remove_destinations (single, "
    "list, referenced, stale), remove_server, remove_all_servers, context "
    "manager exit, client restart (new manager object with the same ID), "
    "foreign instances created directly through the connection (foreign "
    "subscriptions also on filters/destinations owned by a manager, and "
    "deleted again by their creator), owned subscriptions of one manager on "
    "filters/destinations owned by another one, calls with "
    "an unregistered server id and with the documented invalid argument "
    "combinations.  Steering: a manager with owned filters/destinations gets "
    "a foreign subscription on one of them (4%), a manager whose owned "
    "instances are referenced by somebody else's subscription runs a cleanup "
    "call (25%), after a blocked cleanup (60%) the blocking subscription is "
    "removed by its creator, the cleanup is retried or the client restarts.  "
    "With two servers (42-58% of the steps of a manager that is not in a "
    "blocked cleanup): register the other server too, repeat on a server "
    "the add_destination/add_filter/add_subscriptions call of an instance "
    "the manager owns on the other server (same IDs, URL, pair: equal "
    "instance paths, 'twins'), remove a twin explicitly on one server only.  "
    "A cleanup call (remove_server, remove_all_servers, context manager "
    "exit) of a manager some of whose owned filters/destinations are "
    "referenced by a subscription it does not own must fail with "
    "CIM_ERR_FAILED; what it deleted before failing and whether the server "
    "stays registered is taken from the servers / the manager (only owned "
    "instances of that manager may be gone; a server that is no longer "
    "registered although nothing blocked it must have lost all of them).  "
    "After every step: outcome == model's prediction from the "
    "docstrings; get_owned_* of every manager on every registered server == "
    "model's owned set (tagged by the creating call, checked against the "
    "Name marker by string equality) and the instances equal the stored "
    "ones; the three subscription classes in the Interop instance store == "
    "model (nothing else created or deleted, every instance unchanged since "
    "creation); get_all_* of the acting manager == store.  idpairs: the "
    "fixed two-manager scenario over generated ID pairs.  Non-trivial "
    "history = has two managers with related IDs (prefix, case variant, or "
    "one matches the other as a regular expression) both of which created "
    "owned instances, or a client restart followed by a successful removal. "
    "Classes twin:created:*, twin:removed-on-one-server:*, history:twin-* "
    "count the twin situations.  Classes cleanup:blocked-by-*, cleanup:retry-after-unblock, "
    "cleanup:retry-still-blocked, history:blocked-cleanup* count the "
    "histories/steps with a blocked cleanup.  "
    "Non-trivial idpairs case = the two IDs are related in that sense.  "
    "Distinct = distinct history / distinct ID pair.")
ASSUMPTIONS = [
    "manager IDs, filter IDs and destination IDs are printable strings "
    "(str.isprintable()) without ':' as the constructor/add_* docstrings "
    "require; the empty string is included",
    "managers that are alive at the same time have different IDs (the "
    "statement speaks of a new manager with the same ID only after the old "
    "one is gone)",
    "a manager removes only instances that it owns itself or that are "
    "permanent; it creates owned (never permanent: 'the indication filter "
    "and the listener destinations must not be owned') subscriptions also "
    "on filters/destinations owned by another manager.  The documented "
    "ownership of such a subscription is ambiguous (owned by the creator "
    "and, by the discovery rule of add_server(), by the other manager as "
    "well), therefore a manager does not register a server while a "
    "subscription owned by another manager references one of its owned "
    "filters/destinations there (the add_server step is skipped)",
    "foreign subscriptions (created directly through the connection by a "
    "client that is not a subscription manager) may reference any filter "
    "and destination, also owned ones; they are deleted only by their "
    "creator, not through a manager - except that, as add_server() "
    "documents ('If a subscription references a filter or a destination "
    "that is owned by this subscription manager, it is considered owned by "
    "this subscription manager as well'), a manager that registers the "
    "server while such a subscription (foreign, or orphaned by the known "
    "finding) references one of its owned filters/destinations owns it "
    "from then on and deletes it in its cleanup.  Foreign filters and "
    "destinations are never removed (static instances cannot be deleted by "
    "a client)",
    "a cleanup call that fails because the server refuses to delete a "
    "referenced filter/destination: the docstrings say neither which owned "
    "instances are deleted before the failure nor whether the server stays "
    "registered; both are accepted as found (the unmodified code keeps the "
    "server registered), the owned lists must equal what is left",
    "names given to permanent and foreign instances are never exactly of the "
    "marker form 'pywbem{filter|destination}:<id of a manager of the "
    "history>:<text without colon>' (the Name is the documented ownership "
    "marker; such an instance would be owned by definition)",
    "when both documented duplicate rules of add_destination apply (same "
    "generated Name and same URL/PersistenceType as an owned destination) "
    "either documented outcome is accepted",
    "listener URLs equal after lower-casing the scheme and applying the "
    "documented default scheme 'http' are the same listener; hosts of the "
    "pool are pairwise different listeners",
    "SubscriptionStartTime etc. set by the mock from the wall clock are only "
    "compared with themselves (unchanged since creation)",
    "after the first violation in a history the history ends (the model "
    "cannot follow a manager whose state is wrong), except for violations "
    "that leave the state untouched or that the model can follow (orphaned "
    "subscription after restart; owned list lost in a failed cleanup: until "
    "the cleanup succeeds or the client restarts, the steps of that manager "
    "on that server other than cleanup calls are skipped)",
]
SENSITIVITY = [
    # each applied alone to pywbem/_subscription_manager.py of a scratch
    # worktree that already had the three proposed fixes; quick tier, seed 1
    'remove_server() not deleting the owned filters -> history/store:rm_server:instance-that-should-be-deleted-still-exists:filter (also :rm_all:, :ctx_exit:, idpairs/store:scenario:...)',
    "ownership by Name.startswith('pywbem...:' + id) instead of the anchored pattern -> history/owned-list:add_server:dest:claims-instance-of-other-manager, ...:claims-perm-instance, ...:claims-foreign-instance (same for filter; idpairs too)",
    '_create_subscription() not appending to the owned list -> history/owned-list:add_subs:sub:lacks-own-instance, history/outcome:add_subscriptions:expected-ok-got-CIMError11',
    'permanent subscription on an owned destination no longer refused -> history/outcome:add_subscriptions:expected-ValueError-got-ok',
    'remove_destinations() not updating the local list (path compared with `is`) -> history/owned-list:rm_dests:dest:claims-unknown-instance (visible after a restart, when the path objects differ)',
    'discovery: subscription owned only if its filter is owned -> history/owned-list:add_server:sub:lacks-own-instance, idpairs/owned-list:scenario:sub:lacks-own-instance',
    "discovery pattern ':.*$' instead of ':[^:]*$' -> history/owned-list:add_server:filter:claims-perm-instance, ...:dest:claims-perm-instance, idpairs/owned-list:add_server:filter:claims-perm-instance",
    'owned-destination reuse ignoring PersistenceType -> history/add_dest:returned-an-existing-instance-instead-of-creating-one',
    'discovery patterns compiled with re.I -> history/owned-list:add_server:dest:claims-instance-of-other-manager, idpairs/owned-list:add_server:dest:claims-instance-of-other-manager',
    'remove_subscriptions() not updating the local list -> history/owned-list:rm_subs:sub:claims-unknown-instance',
    "filter marker built as 'pywbemfilter:<filter id>:<manager id>' -> history/add_filter:Name-is-not-the-documented-marker, idpairs/add_filter:Name-is-not-the-documented-marker",
    '(quick tier, seed 1, tree with /tmp/proposed_fixes/C18-1-failed-remove-server-drops-owned-lists.diff and without it) remove_server() dropping an owned list only after all its instances were deleted, instead of entry by entry (/tmp/seeded_out/C18/change2.diff) -> history/owned-list:failed-cleanup:filter:claims-instance-it-has-deleted, history/owned-list:failed-cleanup:dest:claims-instance-it-has-deleted (needs a blocked cleanup: 14% of the histories)',
    '(quick tier, seed 1) remove_destinations()/remove_filter()/remove_subscriptions() dropping the removed path from the owned lists of all registered servers (/tmp/seeded_out/C18/change4.diff) -> history/owned-list:rm_dests:dest:forgets-same-path-on-other-server, same for rm_filter:filter and rm_subs:sub (needs twins: 5% of the histories, a fifth of those with two servers, have a twin removed on one server)',
    '(tree before 40ef205) remove_server() that fails at a referenced filter/destination has already dropped the owned lists of the kinds it was done with, but the server stays registered: get_owned_subscriptions()/get_owned_filters(), add_subscriptions() ... raise KeyError -> history/remove_server:failed-cleanup-leaves-server-registered-without-owned-list; gone with /tmp/proposed_fixes/C18-1-failed-remove-server-drops-owned-lists.diff',
    '(unchanged tree) manager ID not escaped in the discovery patterns -> history/discovery:manager-id-interpreted-as-regex, idpairs/discovery:manager-id-interpreted-as-regex; gone with /tmp/proposed_fixes/C18-manager-id-regex-escape.diff',
]

INTEROP = 'interop'
DEST_CN = 'CIM_ListenerDestinationCIMXML'
FILTER_CN = 'CIM_IndicationFilter'
SUB_CN = 'CIM_IndicationSubscription'
KIND_OF = {DEST_CN.lower(): 'dest', FILTER_CN.lower(): 'filter',
           SUB_CN.lower(): 'sub'}
PREFIX = {'dest': 'pywbemdestination', 'filter': 'pywbemfilter'}
SERVER_URLS = ['http://srv1:5988', 'https://srv2.example.com:5989']

K = Opts(lower=True, sort=True, host=False)

_I10 = st.integers(0, 9)
_I100 = st.integers(0, 99)
_I1000 = st.integers(0, 999)
_B = st.booleans()


# ---------------------------------------------------------------------------
# mock servers: built once per process, emptied before every history

_BASES = {}
_WSERVERS = {}


def _pragma_file():
    for root in (REPO, '/repo'):
        found = sorted(glob.glob(os.path.join(
            root, 'tests', 'schema', 'mofFinal*', 'cim_schema_*.mof')))
        if found:
            return found[-1]
    from pywbem_mock import DMTFCIMSchema
    schema = DMTFCIMSchema((2, 49, 0), os.path.join(REPO, 'tests', 'schema'),
                           verbose=False)
    return schema.schema_pragma_file


def _build_server(url):
    conn = FakedWBEMConnection(default_namespace=INTEROP, url=url)
    conn.compile_schema_classes(
        ['CIM_Namespace', 'CIM_ObjectManager', 'CIM_ComputerSystem',
         SUB_CN, FILTER_CN, DEST_CN], _pragma_file(), verbose=False)
    conn.install_namespace_provider(INTEROP)
    conn.install_subscription_providers(INTEROP)
    om = CIMInstance('CIM_ObjectManager', properties={
        'SystemCreationClassName': SYSTEMCREATIONCLASSNAME,
        'CreationClassName': OBJECTMANAGERCREATIONCLASSNAME,
        'SystemName': SYSTEMNAME, 'Name': OBJECTMANAGERNAME,
        'ElementName': 'Mock', 'Description': 'Mock server'})
    om.path = CIMInstanceName(
        'CIM_ObjectManager', namespace=INTEROP,
        keybindings={k: om[k] for k in (
            'SystemCreationClassName', 'CreationClassName', 'SystemName',
            'Name')})
    conn.add_cimobjects(om, namespace=INTEROP)
    return conn


def _store_insts(conn):
    "instances of the three subscription classes in the Interop store"
    store = conn.cimrepository.get_instance_store(INTEROP)
    return [i for i in store.iter_values()
            if i.classname.lower() in KIND_OF]


def _server(si):
    "the (emptied) mock server number si"
    conn = _BASES.get(si)
    if conn is None:
        try:
            conn = _build_server(SERVER_URLS[si])
        except pywbem.Error as exc:
            raise HarnessError('cannot build the mock server: %s' % exc) \
                from exc
        _BASES[si] = conn
    store = conn.cimrepository.get_instance_store(INTEROP)
    for inst in _store_insts(conn):
        store.delete(inst.path)
    if _store_insts(conn):
        raise HarnessError('mock server could not be emptied')
    return conn


def pkey(path):
    return canon(path, K)


# ---------------------------------------------------------------------------
# ID generation

REGEX_META = set('.^$*+?{}[]\\|()')

PLAIN_IDS = ['fred', 'abc', 'a', 'ab', 'abcd', 'Fred', 'FRED', 'mgr1', 'x',
             '', ' ', 'a b', ' abc', 'abc ', 'é', 'ÄÖx',
             '日本語', 'a-b', 'a_b', 'a/b', 'a,b', 'a"b', "a'b",
             'a<b>&', '%s', '#1', '@', '~', '!', 'owned', 'pywbemfilter']
META_IDS = ['a.c', '.*', 'a*', 'ab*c', 'a+', 'a+b', 'a?c', 'a|b', 'abc|fred',
            '[abc]', '[a-c]bc', '(abc)', '(', ')', '[', ']', '{', '{0}',
            'a{2}', '\\', 'a\\', '\\d', '\\w+', '^', '$', '^abc', 'abc$',
            '(?i)abc', '*', '+', '?', '(?P<n>a)', 'a(?=b)', '[^x]*', '.+',
            'x.y.z', 'C++', 'who?', '(test)', 'a.b@c.d', '1+1', '$HOME',
            'my[1]']
# (pattern-like ID, ID it matches as a regular expression)
MATCH_PAIRS = [('a.c', 'abc'), ('ab*c', 'ac'), ('ab*c', 'abbc'), ('a|b', 'a'),
               ('a|b', 'b'), ('[a-c]bc', 'abc'), ('(abc)', 'abc'),
               ('a?c', 'c'), ('a?c', 'ac'), ('\\w+', 'fred'), ('.*', 'fred'),
               ('.*', ''), ('(?i)abc', 'ABC'), ('a+', 'aaa'), ('a{2}', 'aa'),
               ('.+', 'x'), ('[^x]*', 'fred'), ('abc|fred', 'fred'),
               ('x.y.z', 'xayaz'), ('a.b@c.d', 'a-b@c-d'), ('who?', 'wh'),
               ('(test)', 'test'), ('C++', 'CC'), ('\\d', '7')]

_PRINTABLE = st.characters(
    blacklist_categories=('Cc', 'Cf', 'Cs', 'Co', 'Cn', 'Zl', 'Zp', 'Zs'),
    blacklist_characters=':')
_ID_ALPHABET = st.one_of(
    st.sampled_from(list('abcAB01 ._-')),
    st.sampled_from(sorted(REGEX_META)),
    _PRINTABLE)
_ID_TEXT = st.text(alphabet=_ID_ALPHABET, min_size=0, max_size=6)
_PLAIN_TEXT = st.text(alphabet=st.one_of(
    st.sampled_from(list('abcAB01 _-')),
    _PRINTABLE.filter(lambda c: c not in REGEX_META)), min_size=1, max_size=6)


def valid_id(s):
    return isinstance(s, str) and ':' not in s and s.isprintable()


def _g_base_id(draw):
    k = draw(_I10)
    if k < 4:
        return draw(st.sampled_from(PLAIN_IDS))
    if k < 6:
        return draw(st.sampled_from(META_IDS))
    if k < 8:
        return draw(_PLAIN_TEXT)
    return draw(_ID_TEXT)


def _g_related_id(draw, a):
    "an ID related to the ID a"
    k = draw(st.integers(0, 13))
    n = len(a)
    i = draw(_I100) % n if n else 0
    if k == 0 and n:
        return a[:i]                       # prefix (possibly empty)
    if k == 1:
        return a + draw(st.sampled_from(['x', '1', ' ', 'b', '.', '*']))
    if k == 2:
        return a.swapcase()
    if k == 3 and n:
        return a[:i] + '.' + a[i + 1:]     # pattern matching a
    if k == 4:
        return a + draw(st.sampled_from(['*', '?', '+', '.*', '|zz']))
    if k == 5:
        return '(' + a + ')'
    if k == 6 and n:
        return '[' + a[0] + ']' + a[1:]
    if k == 7:
        return draw(st.sampled_from(['zz|', '.*', '^', ''])) + a
    if k == 8 and n:
        return a[:i] + a[i + 1:]           # one character dropped
    if k == 9 and n:
        return a[:i] + a[i] + a[i:]        # one character doubled
    if k in (10, 11, 12):
        # a literal that a matches as a regular expression / a pattern that
        # matches the literal a
        for p, lit in MATCH_PAIRS:
            if p == a and draw(_B):
                return lit
            if lit == a and draw(_B):
                return p
        return a.replace('.', 'q').replace('*', '').replace('+', '') \
            .replace('?', '').replace('\\', '').replace('(', '') \
            .replace(')', '')
    return a + ' '


def _g_ids(draw, nmin=1, nmax=3):
    n = draw(st.sampled_from([1, 2, 2, 2, 3, 3]))
    n = max(nmin, min(nmax, n))
    ids = []
    if n >= 2 and draw(_I10) < 3:
        ids = list(draw(st.sampled_from(MATCH_PAIRS)))
        if draw(_B):
            ids.reverse()
    tries = 0
    while len(ids) < n and tries < 20:
        tries += 1
        if ids and draw(_I10) < 7:
            c = _g_related_id(draw, ids[draw(_I10) % len(ids)])
        else:
            c = _g_base_id(draw)
        if valid_id(c) and c not in ids:
            ids.append(c)
    return ids


def re_matches(pattern, text):
    try:
        return re.fullmatch(pattern, text) is not None
    except (re.error, RecursionError, OverflowError):
        return False


def related(a, b):
    "IDs a != b that a weak ownership test could confuse"
    if a == b:
        return None
    if a.lower() == b.lower():
        return 'case'
    if re_matches(a, b) or re_matches(b, a):
        return 'regex'
    if a.startswith(b) or b.startswith(a):
        return 'prefix'
    return None


def has_meta(s):
    return bool(REGEX_META & set(s))


def pattern_invalid(mid):
    "the discovery patterns with the ID inserted literally do not compile"
    try:
        for k in ('dest', 'filter'):
            re.compile('^%s:%s:[^:]*$' % (PREFIX[k], mid))
    except re.error:
        return True
    return False


def id_classes(ids):
    out = set()
    for a in ids:
        if has_meta(a):
            out.add('ids:regex-metachar')
        if a != a.strip() or a == '' or ' ' in a:
            out.add('ids:blank-or-empty')
        if any(ord(c) > 127 for c in a):
            out.add('ids:non-ascii')
        try:
            re.compile(a)
        except re.error:
            out.add('ids:not-a-valid-regex')
        for b in ids:
            r = related(a, b)
            if r:
                out.add('ids:related-pair:' + r)
    if not any(c.startswith('ids:related') for c in out) and len(ids) > 1:
        out.add('ids:unrelated')
    return sorted(out)


# ---------------------------------------------------------------------------
# other generated data

ITEM_IDS = ['d1', 'd2', 'f1', 'f2', 'id1', '', ' ', 'x.y', 'a*', '(', '[^',
            'A', 'a', 'üß', '日', 'a b', '%', '\\', '$', 'x|y']
_ITEM_ID = st.one_of(st.sampled_from(ITEM_IDS), st.sampled_from(ITEM_IDS[:5]),
                     _ID_TEXT)

SCHEMES = ['http://'] * 7 + ['https://'] * 5 + ['HTTP://', 'Https://', '']
HOSTS = ['localhost', 'my-host.example.com', 'h', '10.1.2.3', '[2001:db8::1]',
         '[fe80::1-eth0]', '[fe80::2%25eth1]', '[::1]', 'UPPER.Example.COM']
PORTS = ['5000', '5000', '5001', '1', '65535']
PTYPES = [None, None, None, None, None, 'transient', 'permanent']
QUERIES = ['SELECT * FROM CIM_Indication',
           "SELECT * FROM CIM_AlertIndication WHERE OwningEntity = 'DMTF'",
           'q']


def url_norm(url):
    "(scheme, host, port) per the documented format of a listener URL"
    scheme, sep, rest = url.partition('://')
    if not sep:
        scheme, rest = 'http', url
    host, _, port = rest.rpartition(':')
    return (scheme.lower(), host, int(port))


def _g_url(draw):
    return draw(st.sampled_from(SCHEMES)) + draw(st.sampled_from(HOSTS)) + \
        ':' + draw(st.sampled_from(PORTS))


def _g_name(draw, kind, ids):
    """
    Name for a permanent or foreign destination/filter: plain names and
    near-misses of the ownership marker.
    """
    pfx = PREFIX[kind]
    other = PREFIX['filter' if kind == 'dest' else 'dest']
    k = draw(st.integers(0, 13))
    m = ids[draw(_I10) % len(ids)]
    x = draw(st.sampled_from(['x', 'd1', 'f1', '']))
    if k < 3:
        return draw(st.sampled_from(
            ['name1', 'pd1', 'pf1', 'static:1', 'n:a:m:e',
             'DMTF:Indications:GlobalAlertIndicationFilter', pfx, pfx + ':',
             pfx + '::', m, ':' + m + ':']))
    if k == 3:
        return '%s:%s' % (pfx, m)                   # no third field
    if k == 4:
        return '%s:%s:%s:y' % (pfx, m, x)           # a fourth field
    if k == 5:
        return 'x%s:%s:%s' % (pfx, m, x)            # text before the marker
    if k == 6:
        return '%s:%s:%s' % (pfx.upper(), m, x)     # marker in upper case
    if k == 7:
        return '%s:%s:%s' % (other, m, x)           # marker of the other kind
    if k == 8:
        return '%s:owned:%s:%s' % (pfx, m, x)
    if k == 9:
        return ' %s:%s:%s' % (pfx, m, x)
    # marker form with an ID related to a manager ID (must not be one of the
    # manager IDs; checked when the step is applied)
    return '%s:%s:%s' % (pfx, _g_related_id(draw, m), x)


def is_marker_of(kind, name, ids):
    parts = name.split(':')
    return len(parts) == 3 and parts[0] == PREFIX[kind] and parts[1] in ids


# ---------------------------------------------------------------------------
# model records

class Rec:
    "one instance the model believes to be in a server"

    def __init__(self, kind, path, owner, name=None, url=None, ptype=None,
                 fkey=None, hkey=None):
        self.kind = kind
        self.path = path
        self.key = pkey(path)
        self.owner = owner      # ('mgr', id) | ('perm',) | ('foreign',)
        #                         | ('orphan',)
        self.name = name
        self.url = url
        self.ptype = ptype
        self.fkey = fkey
        self.hkey = hkey
        self.snap = None
        self.args = None        # arguments of the creating add_* step

    def __repr__(self):
        return 'Rec(%s, %r, %r)' % (self.kind, self.owner,
                                    self.name or (self.fkey, self.hkey))


def sub_path(fpath, hpath):
    return CIMInstanceName(SUB_CN, namespace=INTEROP,
                           keybindings=[('Filter', fpath), ('Handler', hpath)])


def describe(rec_or_inst):
    if isinstance(rec_or_inst, Rec):
        r = rec_or_inst
        if r.kind == 'sub':
            return 'sub(%s)' % (r.owner,)
        return '%s %r %s' % (r.kind, r.name, r.owner)
    i = rec_or_inst
    return '%s %r' % (i.classname, i.get('Name'))


# root cause: remove_server() drops the per-server owned lists kind by kind
# while it works; if it fails at a filter/destination the server stays
# registered without the lists dropped so far
SIG_DROPPED_LIST = ('remove_server:failed-cleanup-leaves-server-registered-'
                    'without-owned-list')


class _Boom(Exception):
    "raised inside a with block of a manager"


class World:
    """
    The servers, the managers and the model; shared by the history machine
    and the scripted scenario.
    """

    def __init__(self, ctx, ids, nservers, share_wbemserver=False):
        self.ctx = ctx
        self.ids = list(ids)
        self.conns = [_server(si) for si in range(nservers)]
        self.urls = [c.url for c in self.conns]
        self.recs = [dict() for _ in self.conns]     # key -> Rec
        self.gone = [[] for _ in self.conns]         # removed Recs
        self.share = share_wbemserver
        self.mgrs = []
        for mid in ids:
            self.mgrs.append({'id': mid, 'obj': WBEMSubscriptionManager(mid),
                              'servers': set(), 'restarted': False,
                              # servers whose last cleanup by this manager
                              # object failed (blocked) and that are still
                              # registered
                              'blocked': set(),
                              # server -> kinds whose owned list the manager
                              # dropped in a failed cleanup (see
                              # SIG_DROPPED_LIST)
                              'limbo': {}})
        self.failed = False
        self.events = set()
        self.just_removed = []      # (server, key) removed by this step

    # ---- helpers -------------------------------------------------------

    def wserver(self, si):
        if self.share:
            ws = _WSERVERS.get(si)
            if ws is None or ws.conn is not self.conns[si]:
                ws = _WSERVERS[si] = WBEMServer(self.conns[si])
            return ws
        return WBEMServer(self.conns[si])

    def fail(self, sig, detail):
        self.failed = True
        self.ctx.fail(sig, detail)

    def own(self, m):
        return ('mgr', m['id'])

    def owned_recs(self, m, si, kind):
        o = self.own(m)
        return [r for r in self.recs[si].values()
                if r.kind == kind and r.owner == o]

    def usable(self, m, si, kind):
        "records a manager may use/remove (see ASSUMPTIONS)"
        o = self.own(m)
        return [r for r in self.recs[si].values()
                if r.kind == kind and r.owner in (o, ('perm',), ('foreign',))]

    def removable(self, m, si, kind):
        o = self.own(m)
        return [r for r in self.recs[si].values()
                if r.kind == kind and r.owner in (o, ('perm',))]

    def referenced(self, si, rec):
        return [r for r in self.recs[si].values() if r.kind == 'sub' and
                (r.fkey == rec.key or r.hkey == rec.key)]

    def others_owned(self, m, si, kind):
        "records of that kind owned by another manager of the history"
        o = self.own(m)
        return [r for r in self.recs[si].values()
                if r.kind == kind and r.owner[0] == 'mgr' and r.owner != o]

    def twins(self, m, si, rec):
        """
        Servers other than si, registered with manager m like si, on which
        m owns an instance with the same instance path as rec (instance
        paths carry no host: same filter/destination ID, same pair).
        """
        if si not in m['servers'] or rec.owner != self.own(m):
            return []
        out = []
        for sj in sorted(m['servers']):
            other = self.recs[sj].get(rec.key) if sj != si else None
            if other is not None and other.owner == rec.owner:
                out.append(sj)
        return out

    def _twin_created(self, m, si, rec, cls):
        if self.twins(m, si, rec):
            cls.append('twin:created:' + rec.kind)
            self.events.add('twin')

    def mgr_owned(self, si, kind):
        "records of that kind owned by any manager of the history"
        return [r for r in self.recs[si].values()
                if r.kind == kind and r.owner[0] == 'mgr']

    def foreign_subs(self, si):
        return [r for r in self.recs[si].values()
                if r.kind == 'sub' and r.owner == ('foreign',)]

    def blockers(self, m, si):
        """
        Subscriptions the manager does not own on filters/destinations it
        owns: the server refuses to delete these filters/destinations, so
        the cleanup of the manager cannot complete.
        """
        o = self.own(m)
        okeys = set(r.key for r in self.recs[si].values()
                    if r.kind != 'sub' and r.owner == o)
        return [r for r in self.recs[si].values()
                if r.kind == 'sub' and r.owner != o and
                (r.fkey in okeys or r.hkey in okeys)]

    def blocking(self, si, rec):
        "managers whose failed cleanup of server si the subscription blocks"
        return [m for m in self.mgrs if si in m['blocked'] and
                rec in self.blockers(m, si)]

    @staticmethod
    def call(fn):
        """
        Run a manager call; the exception types the docstrings name (and the
        two the known defects raise) become outcomes, anything else escapes
        to the runner.
        """
        try:
            return ('ok', fn())
        except CIMError as exc:
            return ('CIMError', exc.status_code, exc)
        except ValueError as exc:
            return ('ValueError', None, exc)
        except KeyError as exc:
            return ('KeyError', None, exc)
        except re.error as exc:
            return ('re.error', None, exc)

    @staticmethod
    def outcome(res):
        if res[0] == 'CIMError':
            return 'CIMError%s' % res[1]
        return res[0]

    def expect(self, op, res, exp):
        "exp: 'ok' | 'ValueError' | ('CIMError', code)"
        got = self.outcome(res)
        want = exp if isinstance(exp, str) else 'CIMError%s' % exp[1]
        if got == want:
            return True
        detail = 'expected %s, got %s' % (want, got)
        if res[0] != 'ok':
            detail += ': %s' % (res[2],)
        self.fail('outcome:%s:expected-%s-got-%s' % (op, want, got), detail)
        return False

    # ---- operations (each returns the ctx classes of the step) ---------

    def add_server(self, mi, si):
        m = self.mgrs[mi]
        if si not in m['servers'] and \
                [r for r in self.blockers(m, si) if r.owner[0] == 'mgr']:
            # the discovery rule would make the subscription of the other
            # manager owned by this one as well (see ASSUMPTIONS)
            return ['skipped', 'skipped:add_server-while-other-manager-'
                    'subscribes-to-own-instance']
        res = self.call(lambda: m['obj'].add_server(self.wserver(si)))
        if si in m['servers']:
            self.expect('add_server-twice', res, 'ValueError')
            return ['refusal:server-already-registered']
        if res[0] == 're.error':
            self.fail('discovery:manager-id-interpreted-as-regex'
                      if has_meta(m['id']) and pattern_invalid(m['id']) else
                      'add_server:re.error-not-explained-by-the-id',
                      'add_server() of manager %r raised re.error: %s' %
                      (m['id'], res[2]))
            return []
        if not self.expect('add_server', res, 'ok'):
            return []
        if res[1] != self.urls[si]:
            self.fail('add_server:server-id-is-not-the-url', repr(res[1]))
            return []
        m['servers'].add(si)
        cls = []
        # documented discovery rule: destinations/filters by Name,
        # subscriptions by the ownership of what they reference
        o = self.own(m)
        okeys = set(r.key for r in self.recs[si].values()
                    if r.kind != 'sub' and r.owner == o)
        for r in list(self.recs[si].values()):
            if r.kind == 'sub' and r.owner == o and \
                    r.fkey not in okeys and r.hkey not in okeys:
                # owned subscription between a filter and a destination that
                # are both not owned: created as owned (documented as
                # allowed), but there is nothing discovery could find
                lst = self.call(
                    lambda: m['obj'].get_owned_subscriptions(self.urls[si]))
                if lst[0] == 'ok' and r.key not in [pkey(i.path)
                                                    for i in lst[1]]:
                    self.ctx.fail(
                        'rediscovery:owned-subscription-on-unowned-filter-'
                        'and-destination-is-lost',
                        'manager %r created an owned subscription between '
                        'the not owned %s and %s; a new manager with the '
                        'same ID does not rediscover it (it is never '
                        'cleaned up)' % (
                            m['id'], describe(self.recs[si][r.fkey]),
                            describe(self.recs[si][r.hkey])))
                    r.owner = ('orphan',)
                    cls.append('rediscovery:orphaned-subscription')
        for r in self.blockers(m, si):
            # documented: "If a subscription references a filter or a
            # destination that is owned by this subscription manager, it is
            # considered owned by this subscription manager as well."
            # (subscriptions of other managers: excluded above)
            cls.append('rediscovery:adopts-%s-subscription-on-owned' %
                       r.owner[0])
            r.owner = o
        if any(r.owner == o for r in self.recs[si].values()):
            cls.append('rediscovery:non-empty')
        return cls

    def _registered(self, op, m, si, res):
        "common part: calls on a server that is not registered"
        if si in m['servers']:
            return True
        if res[0] == 'KeyError':
            # does not change any state: keep going
            self.ctx.fail('unknown-server-id:%s-raises-KeyError' % op,
                          'unknown server id must raise ValueError: %r' %
                          (res[2],))
        else:
            self.expect(op + '-unknown-server', res, 'ValueError')
        return False

    def add_dest(self, mi, si, owned, ident, url, ptype):
        m = self.mgrs[mi]
        sid = self.urls[si]
        if owned:
            name = '%s:%s:%s' % (PREFIX['dest'], m['id'], ident)
            fn = lambda: m['obj'].add_destination(  # noqa: E731
                sid, url, owned=True, destination_id=ident,
                persistence_type=ptype)
        else:
            name = ident
            if is_marker_of('dest', name, self.ids):
                return ['skipped']
            fn = lambda: m['obj'].add_destination(  # noqa: E731
                sid, url, owned=False, name=name, persistence_type=ptype)
        res = self.call(fn)
        if not self._registered('add_destination', m, si, res):
            return ['refusal:unknown-server']
        cls = ['url:' + ('no-scheme' if '://' not in url else
                         'ipv6' if '[' in url else 'host')]
        if '://' not in url and res[0] == 'ValueError' and \
                'cheme' in str(res[2]):
            # documented: [{scheme}://]{host}:{port}, http is the default.
            # Nothing was changed: keep going.
            self.ctx.fail('add_destination:url-without-scheme-rejected',
                          'listener URL %r: %s' % (url, res[2]))
            return cls
        same_name = [r for r in self.recs[si].values()
                     if r.kind == 'dest' and r.name == name]
        pt = {'transient': 3, 'permanent': 2, None: 3 if owned else None}[
            ptype]
        same_url = [r for r in self.owned_recs(m, si, 'dest')
                    if r.url == url_norm(url) and r.ptype == pt] \
            if owned else []
        if same_name:
            if res[0] == 'ok' and same_url and \
                    pkey(res[1].path) in [r.key for r in same_url]:
                return cls + ['dup:dest-name+url']
            self.expect('add_destination-same-name', res,
                        ('CIMError', CIM_ERR_ALREADY_EXISTS))
            return cls + ['dup:dest-name']
        if same_url:
            if self.expect('add_destination-same-url', res, 'ok') and \
                    pkey(res[1].path) not in [r.key for r in same_url]:
                self.fail('add_destination:owned-destination-for-same-url-'
                          'not-reused', 'url %r, returned %s' %
                          (url, res[1].path))
            return cls + ['dup:dest-url-reused']
        if not self.expect('add_destination', res, 'ok'):
            return cls
        inst = res[1]
        if not self._check_new(inst, 'dest', name, si):
            return cls
        got_pt = inst.get('PersistenceType')
        if pt is not None and got_pt != pt:
            self.fail('add_destination:wrong-PersistenceType',
                      'expected %r, got %r' % (pt, got_pt))
        rec = Rec('dest', inst.path, self.own(m) if owned else ('perm',),
                  name=name, url=url_norm(url),
                  ptype=None if got_pt is None else int(got_pt))
        rec.args = {'id': ident, 'url': url, 'ptype': ptype}
        self.recs[si][rec.key] = rec
        self._twin_created(m, si, rec, cls)
        return cls + ['created:dest:' + ('owned' if owned else 'permanent')]

    def _check_new(self, inst, kind, name, si):
        cn = DEST_CN if kind == 'dest' else FILTER_CN
        if not isinstance(inst, CIMInstance) or inst.path is None or \
                inst.classname.lower() != cn.lower():
            self.fail('add_%s:result-is-not-an-instance-with-path' % kind,
                      repr(inst))
            return False
        if pkey(inst.path) in self.recs[si]:
            self.fail('add_%s:returned-an-existing-instance-instead-of-'
                      'creating-one' % kind, str(inst.path))
            return False
        if inst.get('Name') != name or \
                inst.path.keybindings.get('Name') != name:
            self.fail('add_%s:Name-is-not-the-documented-marker' % kind,
                      'expected %r, got %r / %r' %
                      (name, inst.get('Name'),
                       inst.path.keybindings.get('Name')))
            return False
        return True

    def add_filter(self, mi, si, owned, ident, sns, sn, query, ql):
        m = self.mgrs[mi]
        sid = self.urls[si]
        kw = {}
        if sn is not None:
            kw['source_namespace'] = sn
        if owned:
            name = '%s:%s:%s' % (PREFIX['filter'], m['id'], ident)
            fn = lambda: m['obj'].add_filter(  # noqa: E731
                sid, sns, query, ql, owned=True, filter_id=ident, **kw)
        else:
            name = ident
            if is_marker_of('filter', name, self.ids):
                return ['skipped']
            fn = lambda: m['obj'].add_filter(  # noqa: E731
                sid, sns, query, ql, owned=False, name=name, **kw)
        res = self.call(fn)
        if not self._registered('add_filter', m, si, res):
            return ['refusal:unknown-server']
        same_name = [r for r in self.recs[si].values()
                     if r.kind == 'filter' and r.name == name]
        if same_name:
            self.expect('add_filter-same-name', res,
                        ('CIMError', CIM_ERR_ALREADY_EXISTS))
            return ['dup:filter-name']
        if not self.expect('add_filter', res, 'ok'):
            return []
        inst = res[1]
        if not self._check_new(inst, 'filter', name, si):
            return []
        if inst.get('Query') != query or inst.get('QueryLanguage') != ql:
            self.fail('add_filter:query-not-stored', repr(inst))
        rec = Rec('filter', inst.path, self.own(m) if owned else ('perm',),
                  name=name)
        rec.args = {'id': ident, 'sns': sns, 'sn': sn, 'query': query,
                    'ql': ql}
        self.recs[si][rec.key] = rec
        cls = ['created:filter:' + ('owned' if owned else 'permanent')]
        self._twin_created(m, si, rec, cls)
        return cls

    def add_subs(self, mi, si, fsel, dsel, owned, cross=0):
        """
        cross: bit 0 = the filter, bit 1 = the destination(s) are taken from
        the instances owned by the other managers.
        """
        m = self.mgrs[mi]
        sid = self.urls[si]
        o = self.own(m)
        if si not in m['servers']:
            # any syntactically valid paths
            fp = CIMInstanceName(FILTER_CN, {'Name': 'x'}, namespace=INTEROP)
            dp = CIMInstanceName(DEST_CN, {'Name': 'x'}, namespace=INTEROP)
            res = self.call(lambda: m['obj'].add_subscriptions(
                sid, fp, dp if dsel is not None else None, owned))
            self._registered('add_subscriptions', m, si, res)
            return ['refusal:unknown-server']
        flt = self.usable(m, si, 'filter')
        dst = self.usable(m, si, 'dest')
        if cross:
            if not owned:
                # "When creating permanent subscriptions, the indication
                # filter and the listener destinations must not be owned."
                return ['skipped']
            if cross & 1:
                flt = self.others_owned(m, si, 'filter')
            if cross & 2 and dsel is not None:
                dst = self.others_owned(m, si, 'dest')
        if not flt:
            return ['skipped']
        f = flt[fsel % len(flt)]
        if dsel is None:
            seq = self.owned_recs(m, si, 'dest')
            arg = None
        elif isinstance(dsel, int):
            if not dst:
                return ['skipped']
            seq = [dst[dsel % len(dst)]]
            arg = seq[0].path
        else:
            if not dst:
                return ['skipped']
            seq = [dst[i % len(dst)] for i in dsel]
            arg = [r.path for r in seq]
        # model, destination by destination
        exp = 'ok'
        created = []
        returned = []
        cls = ['subs:dest-' + ('none' if dsel is None else 'one' if
                               isinstance(dsel, int) else 'list'),
               'subs:' + ('owned' if owned else 'permanent')]
        if f.owner[0] == 'mgr' and f.owner != o or \
                [d for d in seq if d.owner[0] == 'mgr' and d.owner != o]:
            cls.append('subs:on-instance-owned-by-other-manager')
        for d in seq:
            if not owned and (f.owner == o or d.owner == o):
                exp = 'ValueError'
                cls.append('refusal:permanent-subscription-on-owned')
                break
            path = sub_path(f.path, d.path)
            key = pkey(path)
            ex = self.recs[si].get(key)
            if ex is None:
                for c in created:
                    if c.key == key:
                        ex = c
            if ex is not None:
                if owned and ex.owner == o:
                    returned.append(key)
                    cls.append('dup:owned-subscription-returned')
                    continue
                exp = ('CIMError', CIM_ERR_ALREADY_EXISTS)
                cls.append('dup:subscription-exists')
                break
            created.append(Rec('sub', path, o if owned else ('perm',),
                               fkey=f.key, hkey=d.key))
            returned.append(key)
        res = self.call(lambda: m['obj'].add_subscriptions(
            sid, f.path, arg, owned))
        for c in created:       # also those created before a refusal
            self.recs[si][c.key] = c
            self._twin_created(m, si, c, cls)
        if created:
            cls.append('created:sub:%s:%s-filter:%s-dest' % (
                'owned' if owned else 'permanent',
                'owned' if f.owner == o else
                'other-manager' if f.owner[0] == 'mgr' else f.owner[0],
                'owned' if created[0].hkey in
                [r.key for r in self.owned_recs(m, si, 'dest')]
                else 'other'))
        if not self.expect('add_subscriptions', res, exp):
            return cls
        if res[0] == 'ok':
            got = [pkey(i.path) for i in res[1]]
            if got != returned:
                self.fail('add_subscriptions:returned-instances-differ',
                          'expected %d paths %r\ngot %d: %r' %
                          (len(returned), returned, len(got), got))
        return cls

    def _remove_seq(self, op, m, si, seq, fn, guard):
        """
        Model of a removal call working through seq (Recs, possibly stale
        or repeated) one by one.
        """
        exp = 'ok'
        cls = []
        removed = []
        for r in seq:
            if r.key not in self.recs[si] or r in removed:
                exp = ('CIMError', CIM_ERR_NOT_FOUND)
                cls.append('refusal:stale-path')
                break
            if guard and [s for s in self.referenced(si, r)
                          if s not in removed]:
                exp = ('CIMError', CIM_ERR_FAILED)
                cls.append('refusal:referenced-' + r.kind)
                break
            removed.append(r)
        res = self.call(fn)
        for r in removed:
            if self.twins(m, si, r):
                cls.append('twin:removed-on-one-server:' + r.kind)
                self.events.add('twin-removed')
            self.just_removed.append((si, r.key))
            del self.recs[si][r.key]
            self.gone[si].append(r)
            cls.append('removed:%s:%s' % (r.kind, 'owned' if r.owner ==
                                          self.own(m) else r.owner[0]))
            self.events.add('removal')
            if m['restarted']:
                self.events.add('removal-after-restart')
        self.expect(op, res, exp)
        return cls

    def _pick(self, m, si, kind, sel):
        "resolve a selector (int, list of int, ('stale', int)) to Recs"
        pool = self.removable(m, si, kind)
        one = not isinstance(sel, list)
        out = []
        for s in ([sel] if one else sel):
            if isinstance(s, tuple):
                stale = [r for r in self.gone[si] if r.kind == kind and
                         r.key not in self.recs[si]]
                if not stale:
                    return None, one
                out.append(stale[s[1] % len(stale)])
            else:
                if not pool:
                    return None, one
                out.append(pool[s % len(pool)])
        return out, one

    def rm_subs(self, mi, si, sel):
        m = self.mgrs[mi]
        sid = self.urls[si]
        if si not in m['servers']:
            p = sub_path(
                CIMInstanceName(FILTER_CN, {'Name': 'x'}, namespace=INTEROP),
                CIMInstanceName(DEST_CN, {'Name': 'x'}, namespace=INTEROP))
            res = self.call(lambda: m['obj'].remove_subscriptions(sid, p))
            self._registered('remove_subscriptions', m, si, res)
            return ['refusal:unknown-server']
        seq, one = self._pick(m, si, 'sub', sel)
        if seq is None:
            return ['skipped']
        arg = seq[0].path if one else [r.path for r in seq]
        return self._remove_seq(
            'remove_subscriptions', m, si, seq,
            lambda: m['obj'].remove_subscriptions(sid, arg), guard=False)

    def rm_filter(self, mi, si, sel):
        m = self.mgrs[mi]
        sid = self.urls[si]
        if si not in m['servers']:
            p = CIMInstanceName(FILTER_CN, {'Name': 'x'}, namespace=INTEROP)
            res = self.call(lambda: m['obj'].remove_filter(sid, p))
            self._registered('remove_filter', m, si, res)
            return ['refusal:unknown-server']
        seq, _ = self._pick(m, si, 'filter', sel)
        if seq is None:
            return ['skipped']
        return self._remove_seq(
            'remove_filter', m, si, seq[:1],
            lambda: m['obj'].remove_filter(sid, seq[0].path), guard=True)

    def rm_dests(self, mi, si, sel):
        m = self.mgrs[mi]
        sid = self.urls[si]
        if si not in m['servers']:
            p = CIMInstanceName(DEST_CN, {'Name': 'x'}, namespace=INTEROP)
            res = self.call(lambda: m['obj'].remove_destinations(sid, p))
            self._registered('remove_destinations', m, si, res)
            return ['refusal:unknown-server']
        seq, one = self._pick(m, si, 'dest', sel)
        if seq is None:
            return ['skipped']
        arg = seq[0].path if one else [r.path for r in seq]
        return self._remove_seq(
            'remove_destinations', m, si, seq,
            lambda: m['obj'].remove_destinations(sid, arg), guard=True)

    def _model_remove_server(self, m, si):
        o = self.own(m)
        n = 0
        for r in list(self.recs[si].values()):
            if r.owner == o:
                del self.recs[si][r.key]
                self.gone[si].append(r)
                n += 1
        m['servers'].discard(si)
        if n:
            self.events.add('removal')
            if m['restarted']:
                self.events.add('removal-after-restart')
        others = len(self.recs[si])
        return ['cleanup:%s-owned:%s-others' % ('some' if n else 'no',
                                                 'some' if others else 'no')]

    def _cleanup_classes(self, m, sis, blocked):
        "classes of a cleanup call of manager m on its servers sis"
        cls = []
        for si in sis:
            if si in blocked:
                for kind in sorted(set(r.owner[0] for r in
                                       self.blockers(m, si))):
                    cls.append('cleanup:blocked-by-%s-subscription' % {
                        'mgr': 'other-manager'}.get(kind, kind))
                if si in m['blocked']:
                    cls.append('cleanup:retry-still-blocked')
            elif si in m['blocked']:
                cls.append('cleanup:retry-after-unblock')
                self.events.add('retry-after-unblock')
        if blocked:
            self.events.add('blocked-cleanup')
        return cls

    def _is_registered(self, m, si):
        # get_all_*() validate the server id first (ValueError) and do not
        # use the owned lists
        probe = self.call(lambda: m['obj'].get_all_filters(self.urls[si]))
        return probe[0] != 'ValueError'

    def _resync_after_blocked(self, op, m, sis, blocked):
        """
        A cleanup call of manager m failed as expected because some of its
        owned filters/destinations are referenced by subscriptions it does
        not own.  What a failed cleanup has already deleted, and whether
        the server stays registered, is not documented: take from the
        servers which of the owned instances of m are gone (anything else
        that is gone is found by check()), and ask the manager which servers
        are still registered.  From here on the owned lists must again equal
        the model.
        """
        o = self.own(m)
        for si in sis:
            present = set(pkey(i.path) for i in _store_insts(self.conns[si]))
            n = 0
            for r in list(self.recs[si].values()):
                if r.owner == o and r.key not in present:
                    del self.recs[si][r.key]
                    self.gone[si].append(r)
                    n += 1
            if n:
                self.events.add('removal')
                if m['restarted']:
                    self.events.add('removal-after-restart')
            if self._is_registered(m, si):
                if si in blocked:
                    m['blocked'].add(si)
                continue
            m['servers'].discard(si)
            m['blocked'].discard(si)
            m['limbo'].pop(si, None)
            left = [r for r in self.recs[si].values() if r.owner == o]
            if si not in blocked and left:
                self.fail('cleanup:%s:server-deregistered-but-owned-'
                          'instances-left' % op,
                          'manager %r, server %d, nothing blocks the '
                          'cleanup of this server: %r' % (m['id'], si, left))

    def _cleanup_done(self, m, si):
        m['blocked'].discard(si)
        m['limbo'].pop(si, None)

    def rm_server(self, mi, si):
        m = self.mgrs[mi]
        res = self.call(lambda: m['obj'].remove_server(self.urls[si]))
        if not self._registered('remove_server', m, si, res):
            return ['refusal:unknown-server']
        blocked = [si] if self.blockers(m, si) else []
        cls = self._cleanup_classes(m, [si], blocked)
        if blocked:
            # the server refuses to delete a filter/destination that is
            # still referenced (DSP1054; CIM_ERR_FAILED in the mock server)
            if self.expect('remove_server-blocked', res,
                           ('CIMError', CIM_ERR_FAILED)):
                self._resync_after_blocked('rm_server', m, [si], blocked)
            return cls
        cls += self._model_remove_server(m, si)
        self._cleanup_done(m, si)
        self.expect('remove_server', res, 'ok')
        return cls

    def rm_all(self, mi, how):
        m = self.mgrs[mi]
        if how == 'with':
            def fn():
                with m['obj'] as mgr:
                    if mgr is not m['obj']:
                        raise HarnessError('__enter__ returned other object')
        elif how.startswith('with-exc'):
            # the with block is left through an exception: whatever its type
            # (also a pywbem exception such as a CIMError of a rejected
            # request), the owned instances are cleaned up
            kind = how[len('with-exc'):].lstrip('-') or 'boom'
            exc = {'boom': _Boom(),
                   'cim': pywbem.CIMError(CIM_ERR_ALREADY_EXISTS, 'in block'),
                   'cimfailed': pywbem.CIMError(CIM_ERR_FAILED, 'in block'),
                   'conn': pywbem.ConnectionError('in block'),
                   'timeout': pywbem.TimeoutError('in block'),
                   'parse': pywbem.ParseError('in block'),
                   'value': ValueError('in block'),
                   'key': KeyError('in block')}[kind]

            def fn():
                try:
                    with m['obj']:
                        raise exc
                except type(exc) as got:
                    if got is exc:
                        return
                    raise
                raise HarnessError('exception of the with body swallowed')
        else:
            fn = m['obj'].remove_all_servers
        res = self.call(fn)
        sis = sorted(m['servers'])
        blocked = [si for si in sis if self.blockers(m, si)]
        cls = self._cleanup_classes(m, sis, blocked)
        if blocked:
            if self.expect('remove_all_servers-blocked', res,
                           ('CIMError', CIM_ERR_FAILED)):
                self._resync_after_blocked('rm_all', m, sis, blocked)
            return cls
        for si in sis:
            cls += self._model_remove_server(m, si)
            self._cleanup_done(m, si)
        self.expect('remove_all_servers', res, 'ok')
        return cls

    def restart(self, mi):
        m = self.mgrs[mi]
        had = bool(m['servers'])
        cls = ['restart:' + ('with-servers' if had else 'idle')]
        if m['blocked']:
            cls.append('restart:after-blocked-cleanup')
        m['obj'] = WBEMSubscriptionManager(m['id'])
        m['servers'] = set()
        m['restarted'] = True
        m['blocked'] = set()
        m['limbo'] = {}
        return cls

    def foreign(self, si, kind, name, fsel, dsel, own=0):
        """
        Another client (not a subscription manager) creates an instance
        directly in the server, or deletes a subscription it created.
        own (kind 'sub'): bit 0 = the filter, bit 1 = the destination is
        taken from the instances owned by the managers, if there are any.
        """
        conn = self.conns[si]
        if kind == 'rmsub':
            pool = self.foreign_subs(si)
            if own:
                pool = [r for r in pool if self.blocking(si, r)] or pool
            if not pool:
                return ['skipped']
            r = pool[fsel % len(pool)]
            cls = ['removed:sub:foreign']
            if self.blocking(si, r):
                cls.append('unblock:foreign-subscription-deleted')
            try:
                conn.DeleteInstance(r.path)
            except pywbem.Error as exc:
                raise HarnessError('foreign subscription not deleted: %s' %
                                   exc) from exc
            del self.recs[si][r.key]
            self.gone[si].append(r)
            return cls
        if kind == 'sub':
            pools = []
            for k, bit in (('filter', 1), ('dest', 2)):
                pool = self.mgr_owned(si, k) if own & bit else []
                pools.append(pool or [
                    r for r in self.recs[si].values() if r.kind == k and
                    r.owner[0] in ('perm', 'foreign')])
            flt, dst = pools
            if not flt or not dst:
                return ['skipped']
            f = flt[fsel % len(flt)]
            d = dst[dsel % len(dst)]
            path = sub_path(f.path, d.path)
            if pkey(path) in self.recs[si]:
                return ['skipped']
            inst = CIMInstance(SUB_CN, properties={'Filter': f.path,
                                                   'Handler': d.path})
            try:
                newpath = conn.CreateInstance(inst, namespace=INTEROP)
            except pywbem.Error as exc:
                raise HarnessError('foreign subscription rejected: %s' %
                                   exc) from exc
            rec = Rec('sub', newpath, ('foreign',), fkey=f.key, hkey=d.key)
            self.recs[si][rec.key] = rec
            return ['created:sub:foreign',
                    'created:sub:foreign:' + (
                        'on-owned' if 'mgr' in (f.owner[0], d.owner[0])
                        else 'on-unowned')]
        if is_marker_of(kind, name, self.ids) or \
                [r for r in self.recs[si].values()
                 if r.kind == kind and r.name == name]:
            return ['skipped']
        if kind == 'dest':
            inst = CIMInstance(DEST_CN, properties={
                'Name': name, 'Destination': 'http://static.example.com:5000'})
        else:
            inst = CIMInstance(FILTER_CN, properties={
                'Name': name, 'Query': 'q', 'QueryLanguage': 'WQL'})
        try:
            newpath = conn.CreateInstance(inst, namespace=INTEROP)
        except pywbem.Error as exc:
            raise HarnessError('foreign %s rejected: %s' % (kind, exc)) \
                from exc
        rec = Rec(kind, newpath, ('foreign',), name=name)
        self.recs[si][rec.key] = rec
        return ['created:%s:foreign' % kind,
                'foreign-name:' + ('marker-like' if name.lstrip(' x').lower()
                                   .startswith('pywbem') else 'plain')]

    def bad_args(self, mi, si, which):
        "documented invalid argument combinations -> ValueError, no change"
        m = self.mgrs[mi]
        sid = self.urls[si]
        u = 'http://localhost:5000'
        q = 'SELECT * FROM CIM_Indication'
        o = m['obj']
        calls = {
            'dest-owned-with-name': lambda: o.add_destination(
                sid, u, owned=True, destination_id='d', name='n'),
            'dest-owned-without-id': lambda: o.add_destination(
                sid, u, owned=True),
            'dest-permanent-with-id': lambda: o.add_destination(
                sid, u, owned=False, destination_id='d', name='n'),
            'dest-permanent-without-name': lambda: o.add_destination(
                sid, u, owned=False),
            'dest-invalid-persistence-type': lambda: o.add_destination(
                sid, u, owned=True, destination_id='d',
                persistence_type='forever'),
            'dest-url-without-port': lambda: o.add_destination(
                sid, 'http://localhost', owned=True, destination_id='d'),
            'filter-owned-with-name': lambda: o.add_filter(
                sid, None, q, owned=True, filter_id='f', name='n'),
            'filter-owned-without-id': lambda: o.add_filter(
                sid, None, q, owned=True),
            'filter-permanent-with-id': lambda: o.add_filter(
                sid, None, q, owned=False, filter_id='f', name='n'),
            'filter-permanent-without-name': lambda: o.add_filter(
                sid, None, q, owned=False),
            'filter-id-with-colon': lambda: o.add_filter(
                sid, None, q, owned=True, filter_id='a:b'),
        }
        res = self.call(calls[which])
        self.expect('invalid-arguments:' + which, res, 'ValueError')
        return ['refusal:invalid-arguments']

    BAD_ARGS = ['dest-owned-with-name', 'dest-owned-without-id',
                'dest-permanent-with-id', 'dest-permanent-without-name',
                'dest-invalid-persistence-type', 'dest-url-without-port',
                'filter-owned-with-name', 'filter-owned-without-id',
                'filter-permanent-with-id', 'filter-permanent-without-name',
                'filter-id-with-colon']

    def getters_unknown(self, mi, si, which):
        "get_* with a server id that is not registered -> ValueError"
        m = self.mgrs[mi]
        if si in m['servers']:
            return ['skipped']
        res = self.call(lambda: getattr(m['obj'], which)(self.urls[si]))
        self._registered(which, m, si, res)
        return ['refusal:unknown-server']

    GETTERS = ['get_owned_destinations', 'get_owned_filters',
               'get_owned_subscriptions', 'get_all_destinations',
               'get_all_filters', 'get_all_subscriptions']

    # ---- invariants ----------------------------------------------------

    def check(self, op, acting=None):
        """
        Compare servers and managers with the model.  Returns False after a
        violation.
        """
        actual = []
        for si, conn in enumerate(self.conns):
            insts = {}
            for inst in _store_insts(conn):
                insts[pkey(inst.path)] = inst
            actual.append(insts)
            model = self.recs[si]
            for key, inst in insts.items():
                if key not in model:
                    was = [r for r in self.gone[si] if r.key == key]
                    self.fail('store:%s:%s' % (
                        op, 'instance-that-should-be-deleted-still-exists:' +
                        was[-1].kind if was else
                        'unexpected-instance-created:' +
                        KIND_OF[inst.classname.lower()]),
                        '%s in server %d; model: %r' %
                        (describe(inst), si, list(model.values())))
                    return False
            for key, rec in model.items():
                if key not in insts:
                    who = 'own'
                    if acting is not None and rec.owner != self.own(acting):
                        who = 'of-other-manager' if rec.owner[0] == 'mgr' \
                            else rec.owner[0]
                    self.fail('store:%s:instance-deleted:%s:%s' %
                              (op, rec.kind, who),
                              '%s is gone from server %d' %
                              (describe(rec), si))
                    return False
                snap = canon(insts[key], K)
                if rec.snap is None:
                    rec.snap = snap
                elif rec.snap != snap:
                    self.fail('store:%s:instance-modified:%s' %
                              (op, rec.kind),
                              '%s: %s' % (describe(rec),
                                          diff_path(rec.snap, snap)))
                    return False
        for m in self.mgrs:
            for si in sorted(m['servers']):
                sid = self.urls[si]
                for kind, getter in (
                        ('dest', m['obj'].get_owned_destinations),
                        ('filter', m['obj'].get_owned_filters),
                        ('sub', m['obj'].get_owned_subscriptions)):
                    try:
                        lst = getter(sid)
                    except KeyError as exc:
                        if si not in m['blocked']:
                            raise
                        # The failed cleanup left the server registered but
                        # dropped this owned list.  Nothing in the server is
                        # wrong and a repeated cleanup works: keep going,
                        # with this manager restricted to cleanup calls on
                        # this server (see Machine.apply).
                        first = si not in m['limbo']
                        m['limbo'].setdefault(si, set()).add(kind)
                        if first:
                            self.ctx.fail(SIG_DROPPED_LIST, (
                                'after the failed cleanup (%s) manager %r '
                                'still has server %d registered, but %s() '
                                'raises %r') % (op, m['id'], si,
                                                getter.__name__, exc))
                        lst = []
                    got = sorted(pkey(i.path) for i in lst)
                    exp = sorted(r.key for r in
                                 self.owned_recs(m, si, kind))
                    if got != exp:
                        self._owned_mismatch(op, m, si, kind, got, exp,
                                             actual[si], m is acting)
                        return False
                    for i in lst:
                        stored = actual[si][pkey(i.path)]
                        a = canon(i, K)
                        b = canon(stored, K)
                        if a != b:
                            self.fail(
                                'owned-list:%s:instance-differs-from-'
                                'server:%s' % (op, kind), diff_path(a, b))
                            return False
        if acting is not None:
            for si in sorted(acting['servers']):
                sid = self.urls[si]
                for kind, getter in (
                        ('dest', acting['obj'].get_all_destinations),
                        ('filter', acting['obj'].get_all_filters),
                        ('sub', acting['obj'].get_all_subscriptions)):
                    got = sorted(pkey(i.path) for i in getter(sid))
                    exp = sorted(k for k, i in actual[si].items()
                                 if KIND_OF[i.classname.lower()] == kind)
                    if got != exp:
                        self.fail('get_all:%s:differs-from-server' % kind,
                                  'got %d, server has %d' %
                                  (len(got), len(exp)))
                        return False
        return True

    def regex_predicts(self, m, si, kind, got):
        """
        True if the owned list `got` (sorted keys) is what discovery would
        find when the manager ID is used as a regular expression instead of
        literally (the known root cause 'ID not escaped').
        """
        pred = {}
        for k in ('dest', 'filter'):
            try:
                rx = re.compile('^%s:%s:[^:]*$' % (PREFIX[k], m['id']))
            except re.error:
                return False
            pred[k] = set(r.key for r in self.recs[si].values()
                          if r.kind == k and rx.match(r.name))
        if kind == 'sub':
            keys = [r.key for r in self.recs[si].values() if r.kind == 'sub'
                    and (r.fkey in pred['filter'] or r.hkey in pred['dest'])]
        else:
            keys = pred[kind]
        return sorted(keys) == got

    def _owned_mismatch(self, op, m, si, kind, got, exp, insts, is_acting):
        extra = [k for k in got if k not in exp]
        missing = [k for k in exp if k not in got]
        dup = len(got) != len(set(got))
        what = []
        for k in extra:
            r = self.recs[si].get(k)
            was = [g for g in self.gone[si] if g.key == k]
            what.append('claims %s' % (
                describe(r) if r else
                'the deleted ' + describe(was[-1]) if was else k,))
        for k in missing:
            what.append('lacks %s' % describe(self.recs[si][k]))
        detail = 'manager %r, server %d, %s: %s' % (
            m['id'], si, kind, '; '.join(what) or 'duplicates')
        if extra:
            r = self.recs[si].get(extra[0])
            cleaned = r is None and si in m['blocked'] and \
                [g for g in self.gone[si] if g.key == extra[0] and
                 g.owner == self.own(m)]
            sig = 'owned-list:%s:%s:claims-%s' % (
                'failed-cleanup' if cleaned else op, kind,
                'instance-it-has-deleted' if cleaned else
                'unknown-instance' if r is None else
                'instance-of-other-manager' if r.owner[0] == 'mgr' else
                r.owner[0] + '-instance')
        elif missing and [1 for sj, k in self.just_removed
                          if sj != si and k in missing]:
            # instance paths carry no host
            sig = 'owned-list:%s:%s:forgets-same-path-on-other-server' % (
                op, kind)
        elif missing:
            sig = 'owned-list:%s:%s:lacks-own-instance' % (op, kind)
        elif dup:
            sig = 'owned-list:%s:%s:duplicate-entries' % (op, kind)
        else:
            sig = 'owned-list:%s:%s:differs' % (op, kind)
        if op == 'add_server' and is_acting and has_meta(m['id']) and \
                self.regex_predicts(m, si, kind, got):
            # all consequences of the one root cause get one signature
            sig = 'discovery:manager-id-interpreted-as-regex'
        self.fail(sig, detail)


# ---------------------------------------------------------------------------
# history machine

LIMBO_SKIPS = ('add_dest', 'add_filter', 'add_subs', 'rm_subs', 'rm_filter',
               'rm_dests', 'bad_args')


class Machine:
    def __init__(self, ctx):
        self.ctx = ctx
        self.w = None

    def init_strategy(self):
        @st.composite
        def strat(draw):
            return {'ids': _g_ids(draw),
                    'nservers': draw(st.sampled_from([1, 1, 2]))}
        return strat()

    def setup(self, init):
        for i in init['ids']:
            if not valid_id(i):
                raise HarnessError('invalid manager id generated: %r' % (i,))
        if len(set(init['ids'])) != len(init['ids']):
            raise HarnessError('duplicate manager ids')
        self.init = init
        self.w = World(self.ctx, init['ids'], init['nservers'])
        self.creators = set()

    def step_strategy(self):
        m = self

        @st.composite
        def strat(draw):
            return m._g_step(draw)
        return strat()

    def _g_sel(self, draw, many=True):
        k = draw(_I10)
        if k == 0:
            return ('stale', draw(_I100))
        if many and k < 3:
            return [draw(_I100) for _ in range(1 + draw(_I10) % 3)]
        return draw(_I100)

    @staticmethod
    def _g_cleanup(draw, mi, si):
        x = draw(_I10)
        if x < 6:
            return {'op': 'rm_server', 'm': mi, 's': si}
        if x < 8:
            return {'op': 'rm_all', 'm': mi, 's': si}
        return {'op': 'ctx_exit', 'm': mi, 's': si, 'exc': draw(
            st.sampled_from([False] * 6 + ['boom', 'cim', 'cim', 'cimfailed',
                                           'conn', 'timeout', 'parse',
                                           'value', 'key']))}

    def _g_unblock(self, si, b):
        """
        The step by which the creator of the subscription b removes it, or
        None if there is no such step.
        """
        w = self.w
        if b.owner == ('foreign',):
            pool = w.foreign_subs(si)
            return {'op': 'foreign', 'm': 0, 's': si, 'kind': 'rmsub',
                    'f': pool.index(b), 'd': 0, 'name': None, 'own': 0}
        for bi, other in enumerate(w.mgrs):
            if b.owner == w.own(other) and si in other['servers'] and \
                    si not in other['limbo']:
                return {'op': 'rm_subs', 'm': bi, 's': si,
                        'sel': w.removable(other, si, 'sub').index(b)}
        return None

    def _g_twin(self, draw, mi, steer):
        w = self.w
        m = w.mgrs[mi]
        o = w.own(m)
        reg = sorted(m['servers'])
        if len(reg) < len(w.conns):
            if steer < 45:
                return {'op': 'add_server', 'm': mi,
                        's': [i for i in range(len(w.conns))
                              if i not in reg][0]}
            return None
        cands = []
        need = []
        if steer < 55 or steer >= 72:
            # an owned instance of another server that is missing here
            for si in reg:
                uf = w.usable(m, si, 'filter')
                ud = w.usable(m, si, 'dest')
                for sj in reg:
                    for r in w.recs[sj].values():
                        if sj == si or r.owner != o or r.key in w.recs[si]:
                            continue
                        if r.kind == 'sub':
                            f = w.recs[si].get(r.fkey)
                            d = w.recs[si].get(r.hkey)
                            if f in uf and d in ud:
                                cands.append({
                                    'op': 'add_subs', 'm': mi, 's': si,
                                    'f': uf.index(f), 'd': ud.index(d),
                                    'owned': True})
                        elif r.args is not None:
                            cands.append(dict(
                                r.args, op='add_' + r.kind, m=mi, s=si,
                                owned=True))
                            if [x for x in w.referenced(sj, r)
                                    if x.owner == o]:
                                need.append(cands[-1])
        else:
            # explicit removal of a twin on one server
            for si in reg:
                for kind, op in (('sub', 'rm_subs'), ('filter', 'rm_filter'),
                                 ('dest', 'rm_dests')):
                    pool = w.removable(m, si, kind)
                    for r in pool:
                        if w.twins(m, si, r) and (
                                kind == 'sub' or not w.referenced(si, r)):
                            cands.append({'op': op, 'm': mi, 's': si,
                                          'sel': pool.index(r)})
        # twin subscriptions need twin filters and destinations first
        subs = [c for c in cands if c['op'] in ('add_subs', 'rm_subs')]
        if (subs or need) and draw(_I10) < 7:
            cands = subs or need
        elif steer >= 72:
            return None         # this share only completes twin pairs
        if not cands:
            return None
        return cands[draw(_I1000) % len(cands)]

    def _g_step(self, draw):
        """
        The next step; the choice of the operation looks at the model so
        that most steps are applicable (refusal paths keep a small share).
        """
        w = self.w
        mi = draw(_I100) % len(w.mgrs)
        m = w.mgrs[mi]
        reg = sorted(m['servers'])
        ns = len(w.conns)
        steer = draw(_I100)
        blk = sorted(m['blocked'])
        if blk and steer < 60:
            # a failed cleanup: remove what blocks it, retry it (blocked or
            # not), or give up the manager object
            si = blk[draw(_I10) % len(blk)]
            x = draw(_I100)
            bl = w.blockers(m, si)
            if x < 40 and bl:
                step = self._g_unblock(si, bl[draw(_I100) % len(bl)])
                if step is not None:
                    return step
            if x < 90:
                return self._g_cleanup(draw, mi, si)
            return {'op': 'restart', 'm': mi, 's': si}
        if reg and not blk:
            # blocked cleanups: a subscription of somebody else on an owned
            # filter/destination of this manager, then a cleanup call
            bsi = [i for i in reg if w.blockers(m, i)]
            if bsi and steer < 25:
                return self._g_cleanup(draw, mi, bsi[draw(_I10) % len(bsi)])
            osi = [i for i in reg if i not in bsi and
                   (w.owned_recs(m, i, 'filter') or
                    w.owned_recs(m, i, 'dest'))]
            if osi and steer < 4:
                si = osi[draw(_I10) % len(osi)]
                step = {'op': 'foreign', 'm': mi, 's': si, 'kind': 'sub',
                        'name': None, 'f': draw(_I100), 'd': draw(_I100),
                        'own': 0}
                has = (1 if w.owned_recs(m, si, 'filter') else 0) | \
                    (2 if w.owned_recs(m, si, 'dest') else 0)
                step['own'] = draw(st.sampled_from([1, 2, 3])) & has or has
                for k, key, bit in (('filter', 'f', 1), ('dest', 'd', 2)):
                    if step['own'] & bit:
                        mine = w.owned_recs(m, si, k)
                        step[key] = w.mgr_owned(si, k).index(
                            mine[draw(_I100) % len(mine)])
                return step
        if reg and not blk and ns > 1 and 30 <= steer < 88:
            # twins: instance paths carry no host, so the same filter ID /
            # destination ID / (filter, destination) pair on two servers
            # gives equal paths.  Register the other server too, repeat
            # there what the manager owns here, remove on one server only.
            step = self._g_twin(draw, mi, steer)
            if step is not None:
                return step
        if reg:
            si = reg[draw(_I10) % len(reg)]
            if draw(_I100) < 3:
                si = draw(_I10) % ns        # possibly not registered
            nf = len(w.usable(m, si, 'filter'))
            nd = len(w.usable(m, si, 'dest'))
            rs = len(w.removable(m, si, 'sub'))
            rf = len(w.removable(m, si, 'filter'))
            rd = len(w.removable(m, si, 'dest'))
            stale = len(w.gone[si])
            weights = [
                ('add_dest', 14 if nd < 6 else 4),
                ('add_filter', 12 if nf < 6 else 4),
                ('add_subs', 30 if nf and nd else 2 if nf else 0),
                ('rm_subs', 10 if rs else 1 if stale else 0),
                ('rm_filter', 6 if rf else 0),
                ('rm_dests', 6 if rd else 0),
                ('rm_server', 4), ('rm_all', 1), ('ctx_exit', 1),
                ('restart', 6), ('add_server', 5), ('foreign', 8),
                ('bad_args', 1), ('getter', 1 if len(reg) < ns else 0)]
        else:
            si = draw(_I10) % ns
            weights = [
                ('add_server', 75), ('foreign', 10), ('restart', 3),
                ('add_dest', 1), ('add_filter', 1), ('add_subs', 2),
                ('rm_subs', 1), ('rm_filter', 1), ('rm_dests', 1),
                ('rm_server', 2), ('rm_all', 1), ('getter', 2)]
        total = sum(wt for _, wt in weights)
        x = draw(_I1000) * total // 1000
        op = weights[-1][0]
        for name, wt in weights:
            if x < wt:
                op = name
                break
            x -= wt
        if reg and op in ('add_server', 'rm_server', 'foreign'):
            if draw(_I10) < 5:
                si = draw(_I10) % ns
        step = {'op': op, 'm': mi, 's': si}
        if op == 'add_dest':
            owned = draw(_I10) < 6
            step.update(owned=owned, url=_g_url(draw),
                        ptype=draw(st.sampled_from(PTYPES)),
                        id=draw(_ITEM_ID) if owned else
                        _g_name(draw, 'dest', w.ids))
        elif op == 'add_filter':
            owned = draw(_I10) < 6
            step.update(owned=owned,
                        id=draw(_ITEM_ID) if owned else
                        _g_name(draw, 'filter', w.ids),
                        sns=draw(st.sampled_from(
                            [None, 'root/cimv2', ['root/a', 'root/b'], []])),
                        sn=draw(st.sampled_from([None, None, 'root/x'])),
                        query=draw(st.sampled_from(QUERIES)),
                        ql=draw(st.sampled_from(['WQL', 'DMTF:CQL'])))
        elif op == 'add_subs':
            k = draw(_I10)
            d = None if k < 2 else draw(_I100) if k < 7 else \
                [draw(_I100) for _ in range(draw(_I10) % 4)]
            step.update(f=draw(_I100), d=d, owned=draw(_I10) < 7)
            if len(w.mgrs) > 1 and draw(_I10) < 2:
                # filter and/or destination owned by another manager
                step.update(cross=draw(st.sampled_from([1, 1, 2, 2, 3])),
                            owned=True)
        elif op == 'rm_subs':
            step.update(sel=self._g_sel(draw))
        elif op == 'rm_filter':
            step.update(sel=self._g_sel(draw, many=False))
        elif op == 'rm_dests':
            step.update(sel=self._g_sel(draw))
        elif op == 'foreign':
            kind = draw(st.sampled_from(['dest', 'dest', 'filter', 'filter',
                                         'sub', 'sub', 'sub', 'sub',
                                         'rmsub']))
            step.update(kind=kind, f=draw(_I100), d=draw(_I100),
                        name=None if kind in ('sub', 'rmsub') else
                        _g_name(draw, kind, w.ids))
            if kind == 'sub':
                # half of the foreign subscriptions are on a filter and/or
                # destination owned by a manager (if there is one)
                step.update(own=draw(st.sampled_from([0, 0, 0, 1, 2, 3])))
        elif op == 'bad_args':
            step.update(which=draw(st.sampled_from(World.BAD_ARGS)))
        elif op == 'getter':
            step.update(which=draw(st.sampled_from(World.GETTERS)))
        elif op == 'ctx_exit':
            step.update(exc=draw(st.sampled_from(
                [False] * 5 + ['boom', 'cim', 'cim', 'cimfailed', 'conn',
                               'timeout', 'parse', 'value', 'key'])))
        return step

    def apply(self, step):
        w = self.w
        op = step['op']
        mi, si = step['m'], step['s']
        m = w.mgrs[mi]
        w.just_removed = []
        if si in m['limbo'] and op in LIMBO_SKIPS:
            # the manager has lost an owned list of this server
            # (SIG_DROPPED_LIST, reported): the model cannot follow what
            # calls that use the list do; only cleanup calls go on
            cls = ['skipped', 'skipped:manager-lost-owned-list']
        elif op == 'add_server':
            cls = w.add_server(mi, si)
        elif op == 'add_dest':
            cls = w.add_dest(mi, si, step['owned'], step['id'], step['url'],
                             step['ptype'])
        elif op == 'add_filter':
            cls = w.add_filter(mi, si, step['owned'], step['id'],
                               step['sns'], step['sn'], step['query'],
                               step['ql'])
        elif op == 'add_subs':
            cls = w.add_subs(mi, si, step['f'], step['d'], step['owned'],
                             step.get('cross', 0))
        elif op == 'rm_subs':
            cls = w.rm_subs(mi, si, step['sel'])
        elif op == 'rm_filter':
            cls = w.rm_filter(mi, si, step['sel'])
        elif op == 'rm_dests':
            cls = w.rm_dests(mi, si, step['sel'])
        elif op == 'rm_server':
            cls = w.rm_server(mi, si)
        elif op == 'rm_all':
            cls = w.rm_all(mi, 'call')
        elif op == 'ctx_exit':
            e = step.get('exc')
            cls = w.rm_all(mi, 'with' if not e else
                           'with-exc' if e is True else 'with-exc-' + e)
            if e:
                cls = list(cls) + ['ctx_exit:through-exception:%s' %
                                   ('boom' if e is True else e)]
        elif op == 'restart':
            cls = w.restart(mi)
        elif op == 'foreign':
            cls = w.foreign(si, step['kind'], step['name'], step['f'],
                            step['d'], step.get('own', 0))
        elif op == 'bad_args':
            if si not in m['servers']:
                cls = ['skipped']
            else:
                cls = w.bad_args(mi, si, step['which'])
        elif op == 'getter':
            cls = w.getters_unknown(mi, si, step['which'])
        else:
            raise HarnessError('unknown step %r' % (step,))
        ok = not w.failed
        if ok and cls[:1] != ['skipped']:
            ok = w.check(op, None if op == 'foreign' else m)
        if any(c.startswith('created:') and ':owned' in c for c in cls):
            self.creators.add(m['id'])
        self.ctx.case(key=('step', step), nontrivial=False,
                      classes=['op:' + op] + list(cls))
        return ok

    def finish(self):
        w = self.w
        rel = False
        ids = sorted(self.creators)
        for a in ids:
            for b in ids:
                if related(a, b):
                    rel = True
        restart_removal = 'removal-after-restart' in w.events
        cls = ['history'] + id_classes(w.ids)
        cls.append('history:%d-managers' % len(w.ids))
        cls.append('history:%d-servers' % len(w.conns))
        if rel:
            cls.append('history:related-ids-both-created-owned')
        if restart_removal:
            cls.append('history:restart-then-removal')
        if 'twin' in w.events:
            cls.append('history:twin-instances-on-two-servers')
        if 'twin-removed' in w.events:
            cls.append('history:twin-removed-on-one-server')
        if 'blocked-cleanup' in w.events:
            cls.append('history:blocked-cleanup')
        if 'retry-after-unblock' in w.events:
            cls.append('history:blocked-cleanup-then-retry-after-unblock')
        self.ctx.case(nontrivial=rel or restart_removal, classes=cls)

    def teardown(self):
        self.w = None


# ---------------------------------------------------------------------------
# scripted scenario over ID pairs

def idpairs_strategy():
    @st.composite
    def strat(draw):
        ids = _g_ids(draw, nmin=2, nmax=2)
        if len(ids) < 2:
            ids = ['fred', 'fre']
        return {'a': ids[0], 'b': ids[1], 'fid': draw(_ITEM_ID),
                'did': draw(_ITEM_ID),
                'perm': draw(st.sampled_from([0, 1, 2, 3]))}
    return strat()


def idpairs_oracle(ctx, ex):
    a, b = ex['a'], ex['b']
    if not (valid_id(a) and valid_id(b) and a != b):
        raise HarnessError('bad id pair %r' % (ex,))
    w = World(ctx, [a, b], 1, share_wbemserver=True)
    A, B = w.mgrs
    rel = related(a, b)
    ctx.case(nontrivial=bool(rel),
             classes=id_classes([a, b]) + ['pair:' + (rel or 'unrelated')])
    q = 'SELECT * FROM CIM_Indication'

    def stage(acting, op='scenario'):
        return not w.failed and w.check(op, acting)

    # A registers and creates an owned destination, filter and subscription
    # (and a permanent filter with a near-miss name plus a subscription of A
    # on it)
    w.add_server(0, 0)
    if not stage(A, 'add_server'):
        return
    w.add_dest(0, 0, True, ex['did'], 'http://localhost:5000', None)
    w.add_filter(0, 0, True, ex['fid'], 'root/cimv2', None, q, 'WQL')
    w.add_subs(0, 0, 0, None, True)
    if ex['perm']:
        name = [None, 'pywbemfilter:%s' % a, 'pywbemfilter:%s:x:y' % b,
                'xpywbemfilter:%s:x' % b][ex['perm']]
        w.add_filter(0, 0, False, name, None, None, q, 'WQL')
        w.add_subs(0, 0, 1, None, True)
    if not stage(A):
        return
    # B (another ID) registers: sees nothing of A; creates the same ids
    w.add_server(1, 0)
    if not stage(B, 'add_server'):
        return
    w.add_dest(1, 0, True, ex['did'], 'https://my-host.example.com:5001',
               None)
    w.add_filter(1, 0, True, ex['fid'], None, None, q, 'DMTF:CQL')
    flt = w.usable(B, 0, 'filter')
    own = [i for i, r in enumerate(flt) if r.owner == w.own(B)]
    if own:
        w.add_subs(1, 0, own[0], None, True)
    if not stage(B):
        return
    # B deregisters: A's instances stay
    w.rm_server(1, 0)
    if not stage(B):
        return
    # A restarts (new object, same ID) and rediscovers exactly its set
    w.restart(0)
    w.add_server(0, 0)
    if not stage(A, 'add_server'):
        return
    w.rm_all(0, 'with')
    stage(A)
    left = [r for r in w.recs[0].values() if r.owner[0] == 'mgr']
    if left and not w.failed:
        raise HarnessError('model keeps owned records after cleanup: %r' %
                           (left,))


SUBCHECKS = [
    Sub('history', machine=Machine, quick=(16, 80), thorough=(16, 3000),
        steps=(30, 60), case_timeout=120, budget=(300, 3000)),
    Sub('idpairs', strategy=idpairs_strategy, oracle=idpairs_oracle,
        quick=(16, 120), thorough=(16, 4000), case_timeout=60,
        budget=(300, 3000)),
]
