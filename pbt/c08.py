"""
C08 - MOF produced by tomof() recompiles to the same objects.  DESIGN.md 4.8.

Sub-checks:

* mofstr      metamorphic: the literal parts mofstr() produces for a string,
              lexed with the compiler's lexer and un-escaped with the
              compiler's _fixStringValue(), concatenate to the string again -
              for every fold position (maxline, line_pos, indent, end_space).
* handwritten hand-written MOF string literals using every DSP0004 escape,
              concatenated from 1..4 parts, compile to the denoted characters.
* qualdecl    CIMQualifierDeclaration.tomof() -> compile -> equal.
* cls         CIMClass.tomof() (+ hand-written qualifier declarations and
              stub classes) -> compile -> equal.
* inst        CIMInstance.tomof() (+ hand-written classes) -> compile ->
              equal, including embedded instances and references.
* nonascii    classes whose identifiers contain non-ASCII letters.
* session     state: 3-6 round trips with ONE MOFCompiler object (qualifier
              declarations, classes, instances, in two namespaces) in which
              qualifier and class names recur - redeclared with other flavors
              / types, redefined, or not sent again because the compiler has
              them already - and in which objects of earlier steps are
              modified in place and printed again.  Reported is what a new
              MOFCompiler does not show for a newly built equal object
              (compiler-state:* / object-state:*), and results of earlier
              steps that changed afterwards.
"""

import re
import copy
import functools
import string as _string
import warnings

from hypothesis import strategies as st

from pywbem import (CIMInstance, CIMInstanceName, CIMClass, CIMProperty,
                    CIMDateTime)
from pywbem import _cim_obj
from pywbem import _mof_compiler
from pywbem._mof_compiler import (MOFCompiler, MOFWBEMConnection,
                                  MOFCompileError)

from .runner import Sub, exc_detail, exc_signature
from . import strategies as S

PROPERTY = 'C08'
RULE = (
    "Recipes of qualifier declarations (13 non-reference types x scalar/"
    "array, default values incl. NULL entries, every non-empty scope set, "
    "all flavor combinations), classes (ASCII identifiers that are not MOF "
    "keywords, properties of all 15 types incl. arrays with/without size, "
    "default values, REF properties, EmbeddedInstance properties, methods "
    "with parameters incl. REF and arrays, qualifier values on class/"
    "property/method/parameter with the flavors of their declaration) and "
    "instances of generated classes (all property types, NULLs, arrays, "
    "references, embedded instances nested up to depth 2; half of the plain "
    "class properties declare a non-NULL default value that is independent "
    "of the instance, which then has NULL / another value / the same value "
    "/ omits the property) are turned into "
    "objects, printed with tomof(maxline in 40..200), compiled with a "
    "MOFCompiler on MOFWBEMConnection(conn=None) together with the needed "
    "(hand-written) qualifier declarations and classes, and compared with "
    "the original.  String values come from a profile with quotes, "
    "apostrophes, backslashes, C0 controls, non-ASCII/astral characters, "
    "blank-free runs of 30-220 characters and escape-worthy characters "
    "placed at every distance from the start.  mofstr: (string, maxline, "
    "line_pos, indent, end_space, avoid_splits); handwritten: MOF literals "
    "built from literal characters and every DSP0004 escape in 1-4 parts "
    "in 5 syntactic positions.  Non-trivial = the MOF text contains a folded "
    "string literal, or a string value with an escape-worthy character "
    "(\" ' \\ or U+0001..U+001F), or a char16/real/datetime/reference/"
    "embedded value; for handwritten: at least one escape sequence or more "
    "than one part.  session: a pool of 1-3 qualifier declarations (names "
    "mostly from 4 fixed ones) plus, for most of them, a second declaration "
    "of the same name with other flavors (40%: also another type); 3-6 "
    "steps, each into one of two namespaces (1 in 6: the second): tomof() of "
    "a declaration with default value; a class (class names mostly from 3 "
    "fixed ones) using 1-3 pool declarations, its first one for certain; an "
    "instance with its classes; or a variant = the object of an earlier "
    "class/instance step modified in place (default/property value := NULL, "
    "property/method/class qualifier deleted; 16 masks, 0 = unchanged) and "
    "printed with another maxline.  Half of the steps do not send the "
    "declarations/classes that are current in the session's model again.  "
    "Non-trivial = at least 2 compilations and a redeclaration, "
    "redefinition, reuse, variant or second namespace.  Distinct = distinct "
    "recipe.")
ASSUMPTIONS = [
    "identifiers are ASCII DSP0004 identifiers that are not MOF keywords "
    "(the nonascii sub-check is the exception); the qualifier names "
    "Association and Indication are used as the grammar allows",
    "string values are sequences of Unicode scalar values U+0001..U+10FFFF "
    "(no U+0000, no surrogates); char16 values are one UCS-2 character",
    "real values are finite (MOF has no literal for INF/NaN)",
    "qualifier declarations have at least one scope (the MOF grammar needs "
    "one); toinstance is not compared (tomof() documents that it is not "
    "written); the other flavors are compared as effective values, None "
    "meaning the DSP0004 default (EnableOverride, ToSubclass, not "
    "Translatable), as documented for CIMQualifierDeclaration",
    "qualifier values carry the flavors of their declaration, because "
    "CIMQualifier.tomof() writes no flavors; class_origin, propagated, "
    "embedded_object of class elements, instance paths and qualifiers on "
    "instances are not compared (not in the statement / documented as not "
    "written)",
    "nothing is asserted about properties the instance does not specify "
    "(the statement speaks of the original's property values only)",
    "instances conform to their class (declared properties, same type and "
    "array-ness); embedded objects are instances (the compiler documents "
    "that embedded classes are not supported); class-level default values "
    "of embedded-object properties are not generated",
    "reference values are instance paths (the DSP0004 objectHandle of a "
    "reference initializer cannot denote a class path) with string/integer/"
    "boolean keys, without control characters or '=' in string keys and "
    "with plain host names, i.e. paths for which the WBEM URI round trip "
    "(C07) is not in question",
    "names are compared case-insensitively plus, for class/qualifier "
    "declaration elements, by exact spelling; instance property names only "
    "case-insensitively",
    "mofstr() is called with indent 3..13, 0 <= line_pos <= maxline + 20, "
    "end_space 0..5 - the ranges its callers in tomof() use",
    "every compilation uses a new MOFCompiler on a new MOFWBEMConnection; "
    "to save the ~45 ms PLY needs to build its tables the new parser object "
    "is a shallow copy of a never-used parser (shared read-only tables); a "
    "failure signature is reported only after it was reproduced once per "
    "process with a MOFCompiler built the regular way",
    "session: a MOFCompiler (on MOFWBEMConnection(conn=None)) may be used "
    "for any number of compile_string() calls; SetQualifier/CreateClass of "
    "MOFWBEMConnection are documented to overwrite, CreateInstance to "
    "append, so compiling a declaration/class of a name again replaces the "
    "earlier one and a later qualifier value gets the flavors of the "
    "declaration that is current then; a session ends at the first "
    "compilation that raises (the state of a compiler after an error is not "
    "specified); objects are modified only through documented settable "
    "attributes (CIMProperty.value, deleting entries of the properties/"
    "methods/qualifiers dictionaries); defects that a new compiler shows for "
    "the same text (known findings of cls/inst/qualdecl) are not reported "
    "again by session; the compiled objects of earlier steps are expected to "
    "stay as they were compiled as long as no later step replaces them",
]

# Mutations of pywbem applied one at a time in a scratch worktree (on top of
# the proposed C08 fixes, where the quick tier is silent) -> signatures the
# quick tier then reported (seed 1).
SENSITIVITY = [
    "_mof_escaped(): backslash not escaped -> mofstr/lexer-rejects-literal, "
    "*/value:string:changed, */compile-rejected:MOFParseError:Illegal-"
    "character-",
    "_mof_escaped(): backslash escaped last instead of first (double "
    "escaping) -> mofstr/value:string:changed, qualdecl|cls|inst/value:"
    "string:changed",
    "_mof_escaped(): double quote not escaped -> mofstr/lexer-rejects-"
    "literal, */compile-rejected:MOFParseError:MOF-grammar-error",
    "mofstr(): part_value = value[0:split_pos] (one character lost per "
    "fold) -> mofstr/value:string:changed, */tomof:fold-splits-escape-"
    "sequence, cls|inst/value:reference:changed",
    "CIMProperty.tomof(): array size omitted ('[size]' -> '[]') -> "
    "cls/property:array_size",
    "CIMParameter.tomof(): '[]' omitted for arrays without size -> "
    "cls/parameter:is_array",
    "CIMClass.tomof(): superclass omitted -> cls/names:superclass",
    "CIMQualifierDeclaration.tomof(): scope INDICATION never written -> "
    "qualdecl/qualdecl:scopes, qualdecl/compile-rejected:MOFParseError:"
    "MOF-grammar-error (empty scope list)",
    "CIMQualifierDeclaration.tomof(): 'Restricted' never written -> "
    "qualdecl/flavor:tosubclass",
    "_value_tomof(): NULL array entries skipped -> */value:array-length, "
    "*/compile-rejected:MOFParseError:MOF-grammar-error",
    "_scalar_value_tomof(): datetime written with offset +000 -> "
    "*/value:datetime:changed",
    "compiler _build_flavors(): restricted/tosubclass swapped -> "
    "qualdecl/flavor:tosubclass, cls/flavor:tosubclass",
    "compiler p_stringValueList: parts joined with a blank -> "
    "handwritten|qualdecl|cls|inst/value:string:changed",
    "compiler _fixStringValue(): hexc <<= 3 instead of 4 -> handwritten|"
    "mofstr|qualdecl|cls|inst/value:string:changed, */value:char16:changed",
    "compiler t_decimalValue: sign dropped -> */value:integer:changed, "
    "*/compile-raises:ValueError@_cim_types:__new__",
    "compiler p_instanceDeclaration(): value only assigned when the "
    "initializer is not NULL (seeded change2) -> inst/instance:NULL-value-"
    "replaced-by-class-default",
    "compiler p_qualifier(): flavors of a qualifier without flavor list "
    "cached per (namespace, qualifier name) in the compiler object and never "
    "invalidated (seeded change6) -> session/compiler-state:flavor:"
    "overridable|tosubclass|translatable",
    "not caught because equivalent for this property: mofstr() split "
    "position avl_len instead of avl_len-1 (only the line length changes), "
    "embedded value objs[-1] instead of objs[0] (one object), newlines of "
    "embedded MOF replaced by blanks, sign of hex integer literals dropped "
    "(tomof() writes decimal numbers only)",
]

MOF_KEYWORDS = frozenset("""any as association class disableoverride boolean
char16 datetime enableoverride false flavor indication instance method null
of parameter pragma property qualifier real32 real64 ref reference restricted
schema scope sint16 sint32 sint64 sint8 string tosubclass toinstance
translatable true uint16 uint32 uint64 uint8""".split())

NS = 'root/c08'

# ---------------------------------------------------------------------------
# generators (strategy objects are built once: building and validating them
# inside every draw dominated the run time)

_ID_START = _string.ascii_letters + '_'
_ID_CONT = _string.ascii_letters + _string.digits + '_'


def _not_keyword(s):
    return s.lower() not in MOF_KEYWORDS and not s.startswith('R_')


def _ident():
    "ASCII identifier, not a keyword; sometimes long (pushes line_pos)"
    longid = st.builds(lambda a, b: a + b, st.sampled_from(_ID_START),
                       st.text(alphabet=_ID_CONT, min_size=20, max_size=44))
    return st.one_of(
        st.sampled_from(['A', 'b', 'Cc', 'Dd_1', 'E_e', 'Name', 'pX',
                         'InstanceID', 'P1', 'p2', '_x', 'Caption',
                         'ElementName', 'OtherIdentifyingInfoDescription']),
        S.ident(1, 10), S.ident(1, 10), longid).filter(_not_keyword)


IDENT = _ident()


def _classname():
    return st.one_of(
        st.sampled_from(['CIM_Foo', 'TST_Bar', 'C1', 'My_Class', 'A_b']),
        st.builds(lambda a, b: a + '_' + b, S.ident(1, 4), S.ident(1, 12)),
        IDENT).filter(_not_keyword)


CLASSNAME = _classname()
# names of stub classes (targets of REF / EmbeddedInstance / superclass) are
# kept apart from the names of the classes under test
STUBNAME = CLASSNAME.map(lambda s: 'R_' + s)

_ESC_CHARS = ['"', "'", '\\', '\n', '\t', '\r', '\b', '\f', '\x01', '\x02',
              '\x0b', '\x1b', '\x1f']
_NONASCII = ['\xe4', '\u20ac', '\ufffd', '\U0001F600', '\U00010000', '\x85',
             '\u2028', '\x7f', '\xa0', '\ud7ff', '\uffff']
_MOFISH = ['instance of X { p = "a"; };', '\\x0041', '\\n', '\\"', '*/', '/*',
           '//', '{', '}', ';', ',', '$a', '#pragma', 'NULL', "\\'", '\\\\',
           '" "', '"\n"', ' = ']
_FILL = 'aX9_-.\xe9"\'\\\x01'


def _mof_string():
    "strings of any length and content (see RULE)"
    word = st.text(alphabet=_string.ascii_letters + _string.digits,
                   min_size=1, max_size=12)
    run = st.builds(lambda c, n: c * n, st.sampled_from(_FILL),
                    st.integers(30, 220))
    mixedrun = st.text(
        alphabet=_string.ascii_letters + _string.digits + '"\'\\\x01\n\t',
        min_size=30, max_size=200)
    anychar = st.text(
        alphabet=st.characters(min_codepoint=1,
                               blacklist_categories=('Cs',)),
        min_size=1, max_size=6)
    piece = st.one_of(
        word, word, st.just(' '), st.just(' '), st.sampled_from(_ESC_CHARS),
        st.sampled_from(_ESC_CHARS), st.sampled_from(_NONASCII),
        st.sampled_from(_MOFISH), run, mixedrun, anychar)
    general = st.lists(piece, max_size=10).map(''.join)
    # an escape-worthy character at every distance from the start
    boundary = st.builds(
        lambda n, f, e, k, tail: f * n + e * k + tail,
        st.integers(0, 200), st.sampled_from(['a', 'a', 'ab ', ' ']),
        st.sampled_from(_ESC_CHARS), st.integers(1, 40),
        st.one_of(st.just(''), word))
    simple = st.sampled_from(['', 'a', 'abc', 'Hello World', ' ', ' lead',
                              'trail ', "it's", 'say "hi"', 'a\\b'])
    return st.one_of(simple, simple, general, general, boundary)


STRINGS = _mof_string()


def _short_string():
    """
    printable string without control characters (reference keys); no '='
    because a string key that looks like a WBEM URI is parsed back as a
    reference (a C07 matter)
    """
    return st.one_of(
        st.sampled_from(['', 'a', 'key1', 'a"b', "it's", 'a\\b', 'x y',
                         '\xe4\u20ac', 'a,b.c']),
        st.text(alphabet=_string.ascii_letters + _string.digits +
                ' "\'\\,.:/\xe4', max_size=12))


def _char16():
    return st.one_of(
        st.sampled_from(['a', 'Z', ' ', "'", '"', '\\', '\n', '\t', '\x01',
                         '\x1f', '\xe4', '\u20ac', '\ufffd', '0', '\x7f']),
        st.characters(min_codepoint=1, max_codepoint=0xFFFF,
                      blacklist_categories=('Cs',)))


CHAR16 = _char16()


def _ref_path():
    "instance path recipe (strategies.build form) with C07-safe content"
    def mk(cn, keys, ns, h):
        if ns is None:
            h = None
        return {'k': 'ipath', 'classname': cn, 'keys': keys,
                'namespace': ns, 'host': h}
    sstr = _short_string()
    kv = st.one_of(
        st.tuples(st.just('string'), sstr),
        st.tuples(st.just('string'), sstr),
        st.tuples(st.just('uint8'), S.cim_int('uint8')),
        st.tuples(st.just('sint32'), S.cim_int('sint32')),
        st.tuples(st.just('uint64'), S.cim_int('uint64')),
        st.tuples(st.just('boolean'), st.booleans()))
    keys = st.lists(st.tuples(IDENT, kv), min_size=1, max_size=3,
                    unique_by=lambda x: x[0].lower()).map(
                        lambda l: [(n, kt, v) for n, (kt, v) in l])
    return st.builds(
        mk, STUBNAME, keys,
        st.one_of(st.none(), st.sampled_from(['root/cimv2', 'interop',
                                              'a/b/c', 'root'])),
        st.one_of(st.none(), st.sampled_from(['myhost', 'srv1.example.com',
                                              '10.11.12.13', 'myhost:5989',
                                              '[::1]', '[2001:db8::1]:5989'
                                              ])))


REF_PATH = _ref_path()
DATETIME = S.datetime_scalar()


@functools.lru_cache(maxsize=None)
def scalar(t):
    if t == 'boolean':
        return st.booleans()
    if t == 'string':
        return STRINGS
    if t == 'char16':
        return CHAR16
    if t == 'datetime':
        return DATETIME
    if t in S.INT_TYPES:
        return S.cim_int(t)
    if t in S.REAL_TYPES:
        return S.cim_real(t, allow_nan=False, allow_inf=False)
    if t == 'reference':
        return REF_PATH
    raise ValueError(t)


@functools.lru_cache(maxsize=None)
def value_for(t, is_array, null=2, size=None):
    """
    value of CIM type t: None (null out of 10 times), scalar, or list with
    NULL entries (exactly `size` entries if size is given)
    """
    sc = scalar(t)
    if is_array:
        elem = st.one_of(sc, sc, sc, st.none())
        if size is not None:
            v = st.lists(elem, min_size=size, max_size=size)
        else:
            v = st.lists(elem, max_size=4)
    else:
        v = sc
    if null <= 0:
        return v
    return st.one_of([v] * (10 - null) + [st.none()] * null)


TRISTATE = st.sampled_from([None, None, True, False])
SCOPES = S.SCOPES
ARRAY_SIZE = st.one_of(st.none(), st.none(), st.integers(1, 4))
QUAL_NAME = st.one_of(
    st.sampled_from(['Description', 'Key', 'MaxLen', 'Values',
                     'Association', 'Indication', 'Q1', 'Version']),
    IDENT).filter(lambda s: s.lower() not in ('embeddedinstance',
                                              'embeddedobject', 'abstract'))
# (Hypothesis favours the first elements of sampled_from)
QUAL_TYPE = st.sampled_from(['string'] * 5 + [
    'char16', 'datetime', 'real32', 'real64'] + S.QUAL_TYPES)
SIMPLE_TYPE = st.sampled_from(['string', 'string', 'char16', 'real64',
                               'datetime'] + S.SIMPLE_TYPES)
SCOPE_DICT = st.dictionaries(st.sampled_from(SCOPES), st.booleans(),
                             max_size=8)
SMALL = st.sampled_from(range(10))     # uniform (integers() is not)
MASK = st.integers(1, 2 ** 12)


@st.composite
def qualdecl_recipe(draw, for_use=False, names=None):
    """
    strategies.build 'qualdecl' recipe.  for_use: declaration that is used
    on class elements (no default value, scope ANY).  names: strategy of the
    qualifier name (session sub-check: a small pool, so that names recur).
    """
    name = draw(QUAL_NAME if names is None else names)
    t = draw(QUAL_TYPE)
    is_array = draw(st.booleans())
    asz = draw(ARRAY_SIZE) if is_array else None
    if for_use:
        value = None
        scopes = [('ANY', True)]
    else:
        value = draw(value_for(t, is_array, 2, asz))
        sc = draw(SCOPE_DICT)
        sc[draw(st.sampled_from(SCOPES))] = True      # at least one scope
        if draw(SMALL) == 7:
            sc = {s: True for s in SCOPES}
        scopes = sorted(sc.items())
    return {'k': 'qualdecl', 'name': name, 'type': t, 'value': value,
            'is_array': is_array, 'array_size': asz, 'scopes': scopes,
            'overridable': draw(TRISTATE), 'tosubclass': draw(TRISTATE),
            'toinstance': None if for_use else draw(TRISTATE),
            'translatable': draw(TRISTATE)}


QUALDECL = qualdecl_recipe()
QUALDECLS_FOR_USE = st.lists(qualdecl_recipe(for_use=True), max_size=4,
                             unique_by=lambda d: d['name'].lower())


def _swap(s, mask):
    return S.swapcase_name(s, mask)


def _quals_from(draw, decls, max_size=2):
    "qualifier value recipes for declarations in decls"
    if not decls:
        return []
    idx = draw(st.lists(st.integers(0, len(decls) - 1), max_size=max_size,
                        unique=True))
    out = []
    for i in idx:
        d = decls[i]
        v = draw(value_for(d['type'], d['is_array'], 1, d['array_size']))
        name = d['name']
        if draw(SMALL) == 7:
            name = _swap(name, draw(MASK))
        out.append(_qual_of(d, name, v))
    return out


def _qual_of(d, name, v):
    "qualifier value recipe with the flavors of declaration recipe d"
    return {'k': 'qual', 'name': name, 'type': d['type'], 'value': v,
            'is_array': d['is_array'], 'propagated': None,
            'overridable': d['overridable'], 'tosubclass': d['tosubclass'],
            'toinstance': None, 'translatable': d['translatable']}


PROP_KIND = st.sampled_from(['plain'] * 8 + ['ref', 'ref', 'emb'])
PARAM_TYPE = st.sampled_from(S.ALL_TYPES + ['reference'])
OPT_REF = st.one_of(st.none(), st.none(), st.none(), REF_PATH)
OPT_STUB = st.one_of(st.none(), st.none(), STUBNAME)


@st.composite
def cls_case(draw, decl_lists=None, classnames=None):
    decls = draw(QUALDECLS_FOR_USE if decl_lists is None else decl_lists)
    props = []
    seen = set()
    for _ in range(draw(st.integers(0, 4))):
        name = draw(IDENT)
        if name.lower() in seen:
            continue
        seen.add(name.lower())
        kind = draw(PROP_KIND)
        if kind == 'ref':
            t, is_array, asz = 'reference', False, None
            refcls = draw(STUBNAME)
            value = draw(OPT_REF)
            emb = None
        elif kind == 'emb':
            t, is_array, asz = 'string', draw(st.booleans()), None
            refcls, value = None, None
            emb = draw(STUBNAME)
        else:
            t = draw(SIMPLE_TYPE)
            is_array = draw(st.booleans())
            asz = draw(ARRAY_SIZE) if is_array else None
            value = draw(value_for(t, is_array, 4, asz))
            refcls, emb = None, None
        qs = _quals_from(draw, decls)
        if emb:
            qs.append({'k': 'qual', 'name': 'EmbeddedInstance',
                       'type': 'string', 'value': emb, 'is_array': False,
                       'propagated': None, 'overridable': None,
                       'tosubclass': None, 'toinstance': None,
                       'translatable': None})
        props.append({'k': 'prop', 'name': name, 'type': t, 'value': value,
                      'is_array': is_array, 'array_size': asz,
                      'reference_class': refcls, 'embedded_object': None,
                      'class_origin': None, 'propagated': None,
                      'qualifiers': qs})
    meths = []
    for _ in range(draw(st.integers(0, 2))):
        name = draw(IDENT)
        if name.lower() in seen:
            continue
        seen.add(name.lower())
        params = []
        pseen = set()
        for _ in range(draw(st.integers(0, 3))):
            pname = draw(IDENT)
            if pname.lower() in pseen:
                continue
            pseen.add(pname.lower())
            t = draw(PARAM_TYPE)
            is_array = draw(st.booleans())
            asz = draw(ARRAY_SIZE) if is_array else None
            params.append({'k': 'param', 'name': pname, 'type': t,
                           'value': None, 'is_array': is_array,
                           'array_size': asz,
                           'reference_class': draw(STUBNAME)
                           if t == 'reference' else None,
                           'embedded_object': None,
                           'qualifiers': _quals_from(draw, decls, 1)})
        meths.append({'k': 'meth', 'name': name,
                      'return_type': draw(SIMPLE_TYPE),
                      'parameters': params, 'class_origin': None,
                      'propagated': None,
                      'qualifiers': _quals_from(draw, decls)})
    maxline = draw(MAXLINE)
    if draw(SMALL) == 3 and 'tightm' not in seen and \
            not any(d['name'].lower() == 'longreals' for d in decls):
        # deep indentation + long unsplittable values + small maxline
        decls = decls + [{
            'k': 'qualdecl', 'name': 'LongReals', 'type': 'real64',
            'value': None, 'is_array': True, 'array_size': None,
            'scopes': [('ANY', True)], 'overridable': None,
            'tosubclass': None, 'toinstance': None, 'translatable': None}]
        q = {'k': 'qual', 'name': 'LongReals', 'type': 'real64',
             'value': draw(LONG_REALS), 'is_array': True, 'propagated': None,
             'overridable': None, 'tosubclass': None, 'toinstance': None,
             'translatable': None}
        meths.append({'k': 'meth', 'name': 'TightM', 'return_type': 'uint32',
                      'parameters': [{
                          'k': 'param', 'name': draw(IDENT), 'type': 'uint8',
                          'value': None, 'is_array': False,
                          'array_size': None, 'reference_class': None,
                          'embedded_object': None, 'qualifiers': [q]}],
                      'class_origin': None, 'propagated': None,
                      'qualifiers': []})
        maxline = draw(st.sampled_from([40, 41, 42, 44]))
    cls = {'k': 'class',
           'classname': draw(CLASSNAME if classnames is None else classnames),
           'superclass': draw(OPT_STUB),
           'properties': props, 'methods': meths,
           'qualifiers': _quals_from(draw, decls, 3)}
    return {'decls': decls, 'cls': cls, 'maxline': maxline}


LONG_REALS = st.lists(st.sampled_from([
    -2.2250738585072014e-308, -1.7976931348623157e+308,
    -2.2473141425829687e-219, 1.5, -4.9406564584124654e-324,
    -1.2345678901234567e+100]), min_size=1, max_size=3)


MAXLINE = st.one_of(st.sampled_from([40, 41, 60, 80, 80, 100, 200]),
                    st.integers(40, 200))


# ---- instances

HAS_DEFAULT = st.sampled_from([True, False])
DEFAULT_STRINGS = st.one_of(
    st.sampled_from(['dflt', '', 'a b', 'say "hi"', 'a\\b', 'x\ny', '\x01',
                     '\xe4\u20ac', 'D' * 70]),
    st.text(alphabet=_string.ascii_letters + ' "\\\n\xe4', max_size=10))


@functools.lru_cache(maxsize=None)
def default_for(t, is_array, size):
    "non-NULL default value of a class property (arrays may hold NULLs)"
    sc = DEFAULT_STRINGS if t == 'string' else scalar(t)
    if not is_array:
        return sc
    elem = st.one_of(sc, sc, sc, st.none())
    if size is not None:
        return st.lists(elem, min_size=size, max_size=size)
    return st.lists(elem, max_size=3)


INST_PLAIN_TYPE = st.sampled_from(['string', 'string', 'char16', 'real32',
                                   'datetime'] + S.SIMPLE_TYPES)
INST_KIND0 = st.sampled_from(['plain'] * 7 + ['ref'])
INST_KIND1 = st.sampled_from(['plain'] * 7 + ['ref', 'emb', 'emb', 'emb'])
INST_REF = st.one_of(st.none(), REF_PATH, REF_PATH, REF_PATH)
EMB_KIND = st.sampled_from(['instance', 'object'])


def inst_recipe(draw, depth, cname):
    """
    {'k': 'c08inst', 'classname', 'props': [{'name','type','is_array',
      'array_size','emb','refcls','value','in_inst','spell','default'}]}
    default: non-NULL default value in the class declaration, or None
    value: plain value | nested c08inst recipe(s) for embedded properties
    """
    props = []
    seen = set()
    n = draw(st.integers(1, 5 if depth > 0 else 3))
    for i in range(n):
        name = draw(IDENT)
        if name.lower() in seen:
            continue
        seen.add(name.lower())
        kind = draw(INST_KIND1 if depth > 0 else INST_KIND0)
        refcls = None
        emb = None
        asz = None
        default = None
        if kind == 'ref':
            t, is_array = 'reference', False
            value = draw(INST_REF)
            refcls = value['classname'] if value else draw(STUBNAME)
        elif kind == 'emb':
            t = 'string'
            is_array = draw(st.booleans())
            emb = draw(EMB_KIND)
            sub = inst_recipe(draw, depth - 1, '%s_E%d' % (cname, i))
            if is_array:
                if emb == 'instance':
                    value = [sub] * draw(st.integers(1, 2))
                elif draw(st.booleans()):
                    value = [sub, inst_recipe(draw, depth - 1,
                                              '%s_F%d' % (cname, i))]
                else:
                    value = [sub]
            else:
                value = sub
        else:
            t = draw(INST_PLAIN_TYPE)
            is_array = draw(st.booleans())
            asz = draw(ARRAY_SIZE) if is_array else None
            value = draw(value_for(t, is_array, 2, asz))
            # default value in the class declaration, independent of the
            # instance value; then the instance has NULL there more often
            if draw(HAS_DEFAULT):
                default = draw(default_for(t, is_array, asz))
                if draw(SMALL) in (1, 4, 7):
                    value = None
        spell = name
        if draw(SMALL) == 7:
            spell = _swap(name, draw(MASK))
        props.append({'name': name, 'type': t, 'is_array': is_array,
                      'array_size': asz, 'emb': emb, 'refcls': refcls,
                      'value': value, 'spell': spell, 'default': default,
                      'in_inst': draw(SMALL) != 7})
    if not any(p['in_inst'] for p in props):
        props[0]['in_inst'] = True
    return {'k': 'c08inst', 'classname': cname, 'props': props}


DEPTH = st.sampled_from([0, 0, 1, 1, 2])


@st.composite
def inst_case(draw, classnames=None):
    depth = draw(DEPTH)
    cname = draw(CLASSNAME if classnames is None else classnames)
    return {'inst': inst_recipe(draw, depth, cname),
            'maxline': draw(MAXLINE)}


# ---------------------------------------------------------------------------
# building objects and the hand-written MOF of the dependencies

def decl_mof(d):
    "hand-written MOF of a declaration recipe without default value"
    arr = ''
    if d['is_array']:
        arr = '[%s]' % ('' if d['array_size'] is None else d['array_size'])
    scopes = [s.lower() for s, on in d['scopes'] if on]
    flav = []
    if d['overridable'] is not None:
        flav.append('EnableOverride' if d['overridable']
                    else 'DisableOverride')
    if d['tosubclass'] is not None:
        flav.append('ToSubclass' if d['tosubclass'] else 'Restricted')
    if d['translatable']:
        flav.append('Translatable')
    txt = 'Qualifier %s : %s%s, Scope(%s)' % (d['name'], d['type'], arr,
                                               ', '.join(scopes))
    if flav:
        txt += ', Flavor(%s)' % ', '.join(flav)
    return txt + ';\n'


EMB_DECLS = ('Qualifier EmbeddedInstance : string, '
             'Scope(property, method, parameter);\n'
             'Qualifier EmbeddedObject : boolean = false, '
             'Scope(property, method, parameter);\n')


def cls_stub_names(cls):
    "classes a class recipe depends on (superclass, REF, EmbeddedInstance)"
    names = []

    def add(n):
        if n and n.lower() != cls['classname'].lower() and \
                n.lower() not in [x.lower() for x in names]:
            names.append(n)
    add(cls['superclass'])
    for p in cls['properties']:
        add(p['reference_class'])
        for q in p['qualifiers']:
            if q['name'].lower() == 'embeddedinstance':
                add(q['value'])
    for m in cls['methods']:
        for p in m['parameters']:
            add(p['reference_class'])
    return names


def build_c08inst(r):
    props = []
    for p in r['props']:
        if not p['in_inst']:
            continue
        props.append(CIMProperty(p['spell'], _inst_value(p), type=p['type'],
                                 is_array=p['is_array'],
                                 embedded_object=p['emb'],
                                 reference_class=p['refcls']
                                 if p['type'] == 'reference' else None))
    return CIMInstance(r['classname'], properties=props)


def _inst_value(p):
    v = p['value']
    if p['emb']:
        if isinstance(v, list):
            return [build_c08inst(x) for x in v]
        return build_c08inst(v) if v is not None else None
    return S.build_value(p['type'], v)


def _mof_quoted(text, quote):
    "hand-written DSP0004 literal (independent of tomof()): no folding"
    out = []
    for c in text:
        if c == '\\' or c == quote:
            out.append('\\' + c)
        elif ord(c) < 32:
            out.append('\\x%04X' % ord(c))
        else:
            out.append(c)
    return quote + ''.join(out) + quote


def mof_literal(t, v):
    "hand-written MOF initializer for a plain (recipe) value of CIM type t"
    if isinstance(v, list):
        return '{ ' + ', '.join(mof_literal(t, x) for x in v) + ' }' \
            if v else '{ }'
    if v is None:
        return 'NULL'
    if t == 'boolean':
        return 'true' if v else 'false'
    if t == 'string':
        return _mof_quoted(v, '"')
    if t == 'char16':
        return _mof_quoted(v, "'")
    if t == 'datetime':
        return '"%s"' % S.build_datetime(v)
    if t in S.INT_TYPES:
        return '%d' % v
    if t in S.REAL_TYPES:
        txt = repr(float(v))
        mant, e, exp = txt.partition('e')
        return mant + '.0e' + exp if e and '.' not in mant else txt
    raise ValueError(t)


def inst_dep_mof(r, done=None):
    "hand-written MOF of the classes an instance recipe needs (post-order)"
    if done is None:
        done = set()
    out = []
    body = []
    for p in r['props']:
        if p['emb']:
            subs = p['value'] if isinstance(p['value'], list) else \
                [p['value']]
            for s in subs:
                if s is not None:
                    out.append(inst_dep_mof(s, done))
        arr = ''
        if p['is_array']:
            arr = '[%s]' % ('' if p['array_size'] is None
                            else p['array_size'])
        if p['type'] == 'reference':
            if p['refcls'].lower() not in done and \
                    p['refcls'].lower() != r['classname'].lower():
                done.add(p['refcls'].lower())
                out.append('class %s {\n};\n' % p['refcls'])
            body.append('  %s REF %s;\n' % (p['refcls'], p['name']))
        elif p['emb'] == 'instance':
            first = (p['value'][0] if isinstance(p['value'], list)
                     else p['value'])
            body.append('  [EmbeddedInstance("%s")] string %s%s;\n' %
                        (first['classname'], p['name'], arr))
        elif p['emb'] == 'object':
            body.append('  [EmbeddedObject] string %s%s;\n' % (p['name'],
                                                               arr))
        elif p.get('default') is not None:
            body.append('  %s %s%s = %s;\n' % (
                p['type'], p['name'], arr,
                mof_literal(p['type'], p['default'])))
        else:
            body.append('  %s %s%s;\n' % (p['type'], p['name'], arr))
    if r['classname'].lower() not in done:
        done.add(r['classname'].lower())
        out.append('class %s {\n%s};\n' % (r['classname'], ''.join(body)))
    return ''.join(out)


# ---------------------------------------------------------------------------
# compiling

class FoldSplit(Exception):
    "not compiled: see backtracking_hazard()"


class _Proto:
    "parser tables and lexer rules, built once per process"
    parser = None
    lexer = None


def _new_compiler(real=False):
    """
    A MOFCompiler that has never compiled anything, on a new
    MOFWBEMConnection.  Building the LALR tables takes ~45 ms, so (unless
    real=True) the parser object is a shallow copy of a never-used parser -
    it shares only the tables, which parsing does not modify - and the lexer
    a clone of a never-used lexer.
    """
    # pylint: disable=protected-access
    conn = MOFWBEMConnection()
    if real:
        return MOFCompiler(conn, log_func=None), conn
    if _Proto.parser is None:
        _Proto.parser = _mof_compiler._yacc(False)
        _Proto.lexer = _mof_compiler._lex(False)
    saved = (_mof_compiler._yacc, _mof_compiler._lex)
    _mof_compiler._yacc = lambda verbose=False, out_dir=None: \
        copy.copy(_Proto.parser)
    _mof_compiler._lex = lambda verbose=False, out_dir=None: \
        _Proto.lexer.clone()
    try:
        comp = MOFCompiler(conn, log_func=None)
    finally:
        _mof_compiler._yacc, _mof_compiler._lex = saved
    return comp, conn


def compile_mof(text, real=False, guard=True, ns=None):
    """
    Compile text with a new compiler into namespace ns (default NS);
    returns (conn, exc).
    """
    if guard and backtracking_hazard(text):
        return None, FoldSplit()
    comp, conn = _new_compiler(real)
    try:
        with warnings.catch_warnings():
            warnings.simplefilter('ignore')
            comp.compile_string(text, ns or NS)
    except Exception as exc:  # pylint: disable=broad-except
        return conn, exc
    return conn, None


# signatures that were confirmed with a really new MOFCompiler (real=True)
_CONFIRMED = set()


def outcome(conn, exc, text, what, evaluate, emb_texts=(), exc_sig=None):
    """
    -> list of (signature, detail) for one compilation of `text` that raised
    `exc` (or None) and left its objects in `conn`; one entry per signature.
    """
    if exc is not None:
        sig = exc_sig(exc) if exc_sig else None
        if sig is None:
            sig = compile_failure_sig(exc, text, emb_texts)
        if sig is None:
            sig = 'compile-raises:' + (exc_signature(exc) or
                                       type(exc).__name__)
        return [(sig, '%s does not compile: %r\n--- MOF ---\n%s\n%s' % (
            what, exc, text[:1500], exc_detail(exc, 4)))]
    out = []
    seen = set()
    for sig, detail in evaluate(conn):
        if sig not in seen:
            seen.add(sig)
            out.append((sig, detail + '\n--- MOF ---\n' + text[:1500]))
    return out


def roundtrip(ctx, text, what, evaluate, emb_texts=(), guard=True,
              exc_sig=None):
    """
    Compile `text`, evaluate(conn) -> list of (signature, detail); report
    the failures.  A signature seen for the first time in this process is
    confirmed with a MOFCompiler built the regular way.
    """
    def once(real):
        conn, exc = compile_mof(text, real, guard)
        return outcome(conn, exc, text, what, evaluate, emb_texts, exc_sig)
    found = once(False)
    if found and not all(sig in _CONFIRMED for sig, _ in found):
        again = once(True)
        if sorted(x for x, _ in again) != sorted(x for x, _ in found):
            ctx.event('prototype-compiler-discrepancy')
        else:
            _CONFIRMED.update(x for x, _ in again)
        found = again
    for sig, detail in found:
        ctx.fail(sig, detail)


# ---------------------------------------------------------------------------
# classification helpers (signatures)

FOLD_RE = re.compile(r'"[ \t]*\n[ \t]*"')
_HEX = '0123456789abcdefABCDEF'


def fold_splits_escape(text):
    """
    True if a fold of a string literal (closing quote, newline, opening
    quote) lies inside an escape sequence (\\c, or \\x + 4 hex digits as
    tomof() writes them).
    """
    t = FOLD_RE.sub('\0', text)
    i, n = 0, len(t)
    while i < n:
        c = t[i]
        if c == '"':
            i += 1
            while i < n and t[i] != '"':
                if t[i] == '\\':
                    j = i + 1
                    if j < n and t[j] == '\0':
                        return True
                    if j < n and t[j] in 'xX':
                        k, cnt = j + 1, 0
                        while cnt < 4 and k < n:
                            if t[k] == '\0':
                                return True
                            if t[k] not in _HEX:
                                break
                            k += 1
                            cnt += 1
                        i = k
                    else:
                        i = j + 1
                else:
                    i += 1
            i += 1
        elif c == "'":
            # char literal: 'c' or '\c' or '\xHHHH'
            i += 1
            if i < n and t[i] == '\\':
                i += 2
                while i < n and t[i] != "'":
                    i += 1
            else:
                i += 1
            i += 1
        else:
            i += 1
    return False


def backtracking_hazard(text):
    """
    The compiler's string token pattern backtracks exponentially on a
    malformed literal that contains many \\xNNNN escapes.  A text in which a
    fold splits an escape sequence is malformed for certain, so such a text
    is reported from the scan alone when it holds more than a few hex escapes
    (otherwise the case would only time out).
    """
    return text.count('\\x') + text.count('\\X') > 5 and \
        fold_splits_escape(text)


def has_fold(text):
    return FOLD_RE.search(text) is not None


def strip_literals(line):
    "replace string and char literals of one MOF line by blanks"
    out = []
    i, n = 0, len(line)
    while i < n:
        c = line[i]
        if c in '"\'':
            q = c
            out.append(' ')
            i += 1
            while i < n and line[i] != q:
                i += 2 if line[i] == '\\' else 1
            i += 1
        else:
            out.append(c)
            i += 1
    return ''.join(out)


REAL_NOFRAC_RE = re.compile(r'(?<![\w.])[+-]?[0-9]+[eE][+-]?[0-9]+')


def _norm_msg(msg):
    msg = re.sub(r"'[^']*'|\"[^\"]*\"", '_', msg)
    msg = re.sub(r'\S*[:/]\S*', '_', msg)
    msg = re.sub(r'[0-9]+', 'N', msg)
    return re.sub(r'\s+', '-', msg.strip())[:60]


class _Probe:
    apostrophe = None


def apostrophe_defect_present():
    """
    Does the compiler of this tree drop the apostrophe of \' ?  Probed once
    per process; used only to name the root cause of failures inside
    embedded-instance MOF (where a dropped apostrophe has arbitrary
    secondary effects: char16 literals lose their quotes, ...).
    """
    if _Probe.apostrophe is None:
        conn, exc = compile_mof(
            'Qualifier Q : string = "a\\\'b", Scope(any);\n', real=True)
        _Probe.apostrophe = exc is not None or \
            conn.qualifiers[NS]['Q'].value != "a'b"
    return _Probe.apostrophe


def embedded_texts(inst):
    "tomof() texts of all embedded instances (as tomof() nests them)"
    out = []
    for p in inst.properties.values():
        vals = p.value if isinstance(p.value, list) else [p.value]
        for v in vals:
            if isinstance(v, CIMInstance):
                out.append(v.tomof())
                out.extend(embedded_texts(v))
    return out


def _error_line(exc, text):
    "the MOF source line a MOFCompileError points at, or None"
    context = getattr(exc, 'context', None)
    if isinstance(context, list) and len(context) >= 2:
        return context[-2]
    return None


def compile_failure_sig(exc, text, emb_texts=()):
    """
    Root cause of "the compiler does not accept the tomof() text", or None
    (then the exception signature is used).
    """
    if fold_splits_escape(text) or any(fold_splits_escape(t)
                                       for t in emb_texts):
        return 'tomof:fold-splits-escape-sequence'
    ln = _error_line(exc, text)
    if ln is not None and REAL_NOFRAC_RE.search(strip_literals(ln)):
        return 'tomof:real-in-exponent-form-without-fraction'
    if any("'" in t for t in emb_texts) and apostrophe_defect_present():
        return 'compiler:escaped-apostrophe-dropped'
    if isinstance(exc, MOFCompileError):
        return 'compile-rejected:%s:%s' % (type(exc).__name__,
                                           _norm_msg(exc.msg or ''))
    return None


# ---------------------------------------------------------------------------
# comparison

class Diff:
    "collects (signature, detail)"

    def __init__(self, text):
        self.text = text
        self.items = []
        self.override = None    # signature for everything found meanwhile
        self.defaults = {}      # see class_defaults()

    def add(self, sig, path, a, b):
        self.items.append((self.override or sig,
                           '%s: original %.300r, compiled %.300r' %
                           (path, a, b)))


def _scalar_sig(t, a, b, text, where):
    "signature for a differing scalar (a original, b compiled)"
    if a is None or b is None:
        if where == 'qualifier' and a is None:
            return 'qualifier:explicit-NULL-replaced-by-declaration-default'
        return 'value:NULL-mismatch'
    if t == 'string' and isinstance(a, str):
        if not isinstance(b, str):
            return 'value:string:wrong-class-%s' % type(b).__name__
        if "'" in a and b == a.replace("'", ''):
            return 'compiler:escaped-apostrophe-dropped'
        if "'" in a and b.replace("'", '') == a.replace("'", '') and \
                b.count("'") < a.count("'"):
            return 'compiler:escaped-apostrophe-dropped'
        if fold_splits_escape(text):
            return 'tomof:fold-splits-escape-sequence'
        return 'value:string:changed'
    if t == 'char16':
        if isinstance(b, str) and len(b) >= 3 and b[0] == "'" and \
                b[-1] == "'":
            return 'compiler:char16-literal-keeps-quotes-and-escapes'
        return 'value:char16:changed'
    if t in S.INT_TYPES:
        if type(b) is not S.INT_TYPES[t]:
            return 'value:%s:wrong-class-%s' % (t, type(b).__name__)
        return 'value:integer:changed'
    if t in S.REAL_TYPES:
        if type(b) is not S.REAL_TYPES[t]:
            return 'value:%s:wrong-class-%s' % (t, type(b).__name__)
        return 'value:real:changed'
    if t == 'reference' and isinstance(b, CIMInstanceName) and \
            "'" in a.to_wbem_uri() and apostrophe_defect_present():
        c = a.copy()
        for k, v in list(c.keybindings.items()):
            if isinstance(v, str):
                c.keybindings[k] = v.replace("'", '')
        if c == b:
            return 'compiler:escaped-apostrophe-dropped'
    return 'value:%s:changed' % t


def _scalar_equal(t, a, b):
    if a is None or b is None:
        return a is None and b is None
    if t == 'boolean':
        return type(b) is bool and a == b
    if t == 'string':
        return isinstance(b, str) and a == b
    if t == 'char16':
        return isinstance(b, str) and a == b
    if t == 'datetime':
        return type(b) is CIMDateTime and a == b and str(a) == str(b)
    if t in S.INT_TYPES:
        return type(b) is S.INT_TYPES[t] and int(a) == int(b)
    if t in S.REAL_TYPES:
        return type(b) is S.REAL_TYPES[t] and float(a) == float(b)
    if t == 'reference':
        return type(b) is CIMInstanceName and a == b
    raise ValueError(t)


def diff_value(d, path, t, a, b, where='value'):
    "a original value, b compiled value (scalars, lists, embedded instances)"
    if isinstance(a, list) or isinstance(b, list):
        if not (isinstance(a, list) and isinstance(b, list)):
            if a is None and where == 'qualifier':
                d.add('qualifier:explicit-NULL-replaced-by-declaration-'
                      'default', path, a, b)
            else:
                d.add('value:array-shape', path, a, b)
            return
        if len(a) != len(b):
            d.add('value:array-length', path, a, b)
            return
        for i, (x, y) in enumerate(zip(a, b)):
            diff_value(d, '%s[%d]' % (path, i), t, x, y, where)
        return
    if isinstance(a, CIMInstance):
        if not isinstance(b, CIMInstance):
            d.add('value:embedded-instance-not-compiled', path, a, b)
            return
        saved = d.override
        if saved is None and "'" in a.tomof() and \
                apostrophe_defect_present():
            d.override = 'compiler:escaped-apostrophe-dropped'
        diff_instance(d, path, a, b)
        d.override = saved
        return
    if not _scalar_equal(t, a, b):
        d.add(_scalar_sig(t, a, b, d.text, where), path, a, b)


def eff_flavors(o):
    return (True if o.overridable is None else o.overridable,
            True if o.tosubclass is None else o.tosubclass,
            bool(o.translatable))


def diff_flavors(d, path, a, b):
    fa, fb = eff_flavors(a), eff_flavors(b)
    for name, x, y in zip(('overridable', 'tosubclass', 'translatable'),
                          fa, fb):
        if x != y:
            d.add('flavor:%s' % name, path + '.' + name, x, y)


def _names(d, path, what, a, b, exact=True):
    "compare two NocaseDicts' key sets; returns common (key_a, key_b)"
    la = {k.lower(): k for k in a.keys()}
    lb = {k.lower(): k for k in b.keys()}
    if set(la) != set(lb):
        d.add('names:%s-set' % what, path, sorted(la.values()),
              sorted(lb.values()))
    out = []
    for k in la:
        if k in lb:
            out.append((la[k], lb[k]))
    return out


def _name(d, path, what, a, b):
    if a is None or b is None:
        if a is not b:
            d.add('names:%s' % what, path, a, b)
        return
    if a.lower() != b.lower():
        d.add('names:%s' % what, path, a, b)
    elif a != b:
        d.add('names:%s-spelling' % what, path, a, b)


def diff_qualifiers(d, path, a, b):
    for ka, kb in _names(d, path, 'qualifier', a, b):
        qa, qb = a[ka], b[kb]
        p = '%s[%s]' % (path, ka)
        _name(d, p, 'qualifier', qa.name, qb.name)
        if qa.type != qb.type:
            d.add('qualifier:type', p, qa.type, qb.type)
        else:
            diff_value(d, p + '.value', qa.type, qa.value, qb.value,
                       'qualifier')
        diff_flavors(d, p, qa, qb)


def _diff_typed(d, p, what, a, b):
    "type, is_array, array_size, reference_class of property/parameter"
    if a.type != b.type:
        d.add('%s:type' % what, p, a.type, b.type)
    if bool(a.is_array) != bool(b.is_array):
        d.add('%s:is_array' % what, p, a.is_array, b.is_array)
    if a.array_size != b.array_size:
        d.add('%s:array_size' % what, p, a.array_size, b.array_size)
    if a.type == 'reference':
        _name(d, p, what + '-reference_class', a.reference_class,
              b.reference_class)


def diff_class(d, a, b):
    _name(d, 'class', 'classname', a.classname, b.classname)
    _name(d, 'class', 'superclass', a.superclass, b.superclass)
    diff_qualifiers(d, 'class.qualifiers', a.qualifiers, b.qualifiers)
    for ka, kb in _names(d, 'class.properties', 'property', a.properties,
                         b.properties):
        pa, pb = a.properties[ka], b.properties[kb]
        p = 'property[%s]' % ka
        _name(d, p, 'property', pa.name, pb.name)
        _diff_typed(d, p, 'property', pa, pb)
        if pa.type == pb.type:
            diff_value(d, p + '.value', pa.type, pa.value, pb.value)
        diff_qualifiers(d, p + '.qualifiers', pa.qualifiers, pb.qualifiers)
    for ka, kb in _names(d, 'class.methods', 'method', a.methods, b.methods):
        ma, mb = a.methods[ka], b.methods[kb]
        p = 'method[%s]' % ka
        _name(d, p, 'method', ma.name, mb.name)
        if ma.return_type != mb.return_type:
            d.add('method:return_type', p, ma.return_type, mb.return_type)
        diff_qualifiers(d, p + '.qualifiers', ma.qualifiers, mb.qualifiers)
        for ja, jb in _names(d, p + '.parameters', 'parameter',
                             ma.parameters, mb.parameters):
            xa, xb = ma.parameters[ja], mb.parameters[jb]
            pp = '%s.parameter[%s]' % (p, ja)
            _name(d, pp, 'parameter', xa.name, xb.name)
            _diff_typed(d, pp, 'parameter', xa, xb)
            diff_qualifiers(d, pp + '.qualifiers', xa.qualifiers,
                            xb.qualifiers)


def class_defaults(r, out=None):
    "{classname.lower(): {propname.lower(): built default}} of a recipe"
    if out is None:
        out = {}
    dd = out.setdefault(r['classname'].lower(), {})
    for p in r['props']:
        if p.get('default') is not None:
            dd[p['name'].lower()] = S.build_value(p['type'], p['default'])
        if p['emb']:
            for sub in (p['value'] if isinstance(p['value'], list)
                        else [p['value']]):
                if sub is not None:
                    class_defaults(sub, out)
    return out


def diff_instance(d, path, a, b):
    if a.classname.lower() != b.classname.lower():
        d.add('names:instance-classname', path, a.classname, b.classname)
    dflt = getattr(d, 'defaults', {}).get(a.classname.lower(), {})
    for ka, kb in _names(d, path + '.properties', 'instance-property',
                         a.properties, b.properties):
        pa, pb = a.properties[ka], b.properties[kb]
        p = '%s.%s' % (path, ka)
        if pa.type != pb.type:
            d.add('instance-property:type', p, pa.type, pb.type)
            continue
        if bool(pa.is_array) != bool(pb.is_array):
            d.add('instance-property:is_array', p, pa.is_array, pb.is_array)
            continue
        if pa.value is None and pb.value is not None and \
                ka.lower() in dflt and pb.value == dflt[ka.lower()]:
            d.add('instance:NULL-value-replaced-by-class-default', p,
                  pa.value, pb.value)
            continue
        diff_value(d, p, pa.type, pa.value, pb.value)


def diff_qualdecl(d, a, b):
    _name(d, 'qualdecl', 'qualifier-declaration', a.name, b.name)
    if a.type != b.type:
        d.add('qualdecl:type', 'type', a.type, b.type)
    if bool(a.is_array) != bool(b.is_array):
        d.add('qualdecl:is_array', 'is_array', a.is_array, b.is_array)
    if a.array_size != b.array_size:
        d.add('qualdecl:array_size', 'array_size', a.array_size,
              b.array_size)
    if a.type == b.type:
        diff_value(d, 'value', a.type, a.value, b.value)
    sa = sorted(k.upper() for k, v in a.scopes.items() if v)
    sb = sorted(k.upper() for k, v in b.scopes.items() if v)
    if sa != sb:
        d.add('qualdecl:scopes', 'scopes', sa, sb)
    diff_flavors(d, 'qualdecl', a, b)


# ---------------------------------------------------------------------------
# recipe classification (non-trivial rule, class counters)

def _strings_in(r):
    for x in S.walk(r):
        if isinstance(x, str):
            yield x


_ESCSET = set('"\'\\') | {chr(i) for i in range(1, 32)}


def value_classes(recipe, text, maxline):
    cl = set()
    nontriv = False
    if has_fold(text):
        cl.add('fold')
        nontriv = True
    for s in _strings_in(recipe):
        if any(c in _ESCSET for c in s):
            nontriv = True
            if '"' in s:
                cl.add('str:quote')
            if "'" in s:
                cl.add('str:apostrophe')
            if '\\' in s:
                cl.add('str:backslash')
            if any(ord(c) < 32 for c in s):
                cl.add('str:control')
        if any(ord(c) > 127 for c in s):
            cl.add('str:nonascii')
        if any(ord(c) > 0xFFFF for c in s):
            cl.add('str:astral')
        if len(s) > 100:
            cl.add('str:len>100')
        if re.search(r'\S{%d,}' % maxline, s):
            cl.add('str:blankfree-run>=maxline')
    if maxline < 60:
        cl.add('maxline:40-59')
    elif maxline <= 100:
        cl.add('maxline:60-100')
    else:
        cl.add('maxline:101-200')
    return cl, nontriv


def _typed_items(recipe):
    "yield (type, is_array, value) of every typed element in a recipe"
    for x in S.walk(recipe):
        if isinstance(x, dict) and 'type' in x and 'value' in x:
            yield x['type'], x.get('is_array'), x['value'], x


def type_classes(recipe):
    cl = set()
    nontriv = False
    for t, is_arr, v, x in _typed_items(recipe):
        if x.get('in_inst') is False:
            continue
        lab = 'decl' if v is None else 'val'
        cl.add('%s:%s%s' % (lab, t, '[]' if is_arr else ''))
        if isinstance(v, list):
            if not v:
                cl.add('array:empty')
            if any(e is None for e in v):
                cl.add('array:null-entry')
        if x.get('array_size') is not None:
            cl.add('array:fixed-size')
        if v is not None and v != []:
            if t in ('char16', 'datetime', 'reference', 'real32', 'real64'):
                nontriv = True
            if x.get('emb'):
                nontriv = True
                cl.add('embedded:' + x['emb'])
            if t == 'reference' and isinstance(v, dict):
                if v.get('host'):
                    cl.add('ref:host')
                elif v.get('namespace'):
                    cl.add('ref:namespace')
                else:
                    cl.add('ref:local')
    return cl, nontriv


# ---------------------------------------------------------------------------
# sub-check: qualdecl

def qualdecl_strategy():
    return st.tuples(QUALDECL, MAXLINE)


def _tomof(ctx, obj, maxline, what):
    try:
        return obj.tomof(maxline=maxline)
    except Exception as exc:  # pylint: disable=broad-except
        ctx.fail_exc(exc, 'tomof-raises')
        return None


def qualdecl_oracle(ctx, ex):
    r, maxline = ex
    orig = S.build(r)
    text = _tomof(ctx, orig, maxline, 'qualdecl')
    cl, nt1 = type_classes(r)
    if text is None:
        ctx.case(nontrivial=True, classes=cl)
        return
    cl2, nt2 = value_classes(r, text, maxline)
    cl |= cl2
    fl = (r['overridable'], r['tosubclass'], r['translatable'])
    cl.add('flavors:none' if fl == (None, None, None) else 'flavors:some')
    cl.add('scopes:%d' % min(sum(1 for _, on in r['scopes'] if on), 8))

    def evaluate(conn):
        d = Diff(text)
        try:
            got = conn.qualifiers[NS][orig.name]
        except KeyError:
            d.add('compiled-object-missing', 'qualifier declaration',
                  orig.name, None)
            return d.items
        diff_qualdecl(d, orig, got)
        return d.items
    roundtrip(ctx, text, 'qualifier declaration', evaluate)
    ctx.case(nontrivial=nt1 or nt2, classes=cl)


# ---------------------------------------------------------------------------
# sub-check: cls

def cls_oracle(ctx, ex):
    r, maxline = ex['cls'], ex['maxline']
    orig = S.build(r)
    cl, nt1 = type_classes(r)
    body = _tomof(ctx, orig, maxline, 'class')
    if body is None:
        ctx.case(nontrivial=True, classes=cl)
        return
    cl2, nt2 = value_classes(r, body, maxline)
    cl |= cl2
    if r['qualifiers']:
        cl.add('quals:class')
    if any(p['qualifiers'] for p in r['properties']):
        cl.add('quals:property')
    if any(m['qualifiers'] for m in r['methods']):
        cl.add('quals:method')
    if any(p['qualifiers'] for m in r['methods'] for p in m['parameters']):
        cl.add('quals:parameter')
    if r['methods']:
        cl.add('methods')
    if any(m['parameters'] for m in r['methods']):
        cl.add('parameters')
    if r['superclass']:
        cl.add('superclass')
    for q in (x for x in S.walk(r) if isinstance(x, dict) and
              x.get('k') == 'qual'):
        if q['value'] is None:
            cl.add('qual:NULL-value')
        if (q['overridable'], q['tosubclass'], q['translatable']) != \
                (None, None, None):
            cl.add('qual:flavors')
    pre = EMB_DECLS + ''.join(decl_mof(x) for x in ex['decls']) + \
        ''.join('class %s {\n};\n' % n for n in cls_stub_names(r))
    text = pre + body

    def evaluate(conn):
        d = Diff(body)
        try:
            got = conn.classes[NS][orig.classname]
        except KeyError:
            d.add('compiled-object-missing', 'class', orig.classname, None)
            return d.items
        diff_class(d, orig, got)
        return d.items
    roundtrip(ctx, text, 'class', evaluate)
    ctx.case(nontrivial=nt1 or nt2, classes=cl)


# ---------------------------------------------------------------------------
# sub-check: inst

def _emb_depth(r):
    best = 0
    for p in r['props']:
        if p['emb'] and p['in_inst'] and p['value'] is not None:
            subs = p['value'] if isinstance(p['value'], list) else \
                [p['value']]
            for s in subs:
                best = max(best, 1 + _emb_depth(s))
    return best


def inst_oracle(ctx, ex):
    r, maxline = ex['inst'], ex['maxline']
    orig = build_c08inst(r)
    cl, nt1 = type_classes(r)
    body = _tomof(ctx, orig, maxline, 'instance')
    if body is None:
        ctx.case(nontrivial=True, classes=cl)
        return
    cl2, nt2 = value_classes(r, body, maxline)
    cl |= cl2
    cl.add('embedded-depth:%d' % _emb_depth(r))
    text = EMB_DECLS + inst_dep_mof(r) + body
    embt = embedded_texts(orig)
    if any(backtracking_hazard(t) for t in embt):
        ctx.fail('tomof:fold-splits-escape-sequence',
                 'in the MOF of an embedded instance:\n' + text[:1500])
        ctx.event('reported-from-scan-only')
        ctx.case(nontrivial=True, classes=cl)
        return

    defaults = class_defaults(r)
    for x in S.walk(r):
        if isinstance(x, dict) and x.get('default') is not None:
            cl.add('class-default:' + (
                'instance-omits' if not x['in_inst'] else
                'instance-NULL' if x['value'] is None else
                'instance-same' if x['value'] == x['default'] else
                'instance-other'))

    def evaluate(conn):
        d = Diff(body)
        d.defaults = defaults
        insts = conn.instances.get(NS, [])
        if len(insts) != 1:
            d.add('compiled-object-missing', 'instances', 1, len(insts))
            return d.items
        diff_instance(d, 'instance', orig, insts[0])
        return d.items
    roundtrip(ctx, text, 'instance', evaluate, emb_texts=embt)
    ctx.case(nontrivial=nt1 or nt2, classes=cl)


# ---------------------------------------------------------------------------
# sub-check: mofstr (metamorphic, lexer level)

class _Lex:
    lexer = None


def _lexer():
    if _Lex.lexer is None:
        # pylint: disable=protected-access
        _Lex.lexer = _mof_compiler._lex()
        _Lex.lexer.parser = None
        _Lex.lexer.last_msg = None
    return _Lex.lexer.clone()


def mofstr_strategy():
    return st.tuples(
        STRINGS, MAXLINE,
        st.sampled_from([3, 6, 7, 10, 13]),                 # indent
        st.one_of(st.integers(0, 60), st.integers(0, 220)),  # line_pos
        st.sampled_from([0, 1, 3, 5]), st.booleans())


def mofstr_oracle(ctx, ex):
    s, maxline, indent, line_pos, end_space, avoid = ex
    line_pos = min(line_pos, maxline + 20)
    # pylint: disable=protected-access
    out, _ = _cim_obj.mofstr(s, indent, maxline, line_pos, end_space, avoid)
    cl = set()
    if has_fold(out):
        cl.add('fold')
    esc = any(c in _ESCSET for c in s)
    if esc:
        cl.add('escape-worthy')
    if re.search(r'\S{%d,}' % maxline, s):
        cl.add('blankfree-run>=maxline')
    cl.add('parts:%d' % min(len(FOLD_RE.findall(out)) + 1, 5))
    detail = 'mofstr(%r, indent=%d, maxline=%d, line_pos=%d, end_space=%d, ' \
        'avoid_splits=%r) = %r' % (s, indent, maxline, line_pos, end_space,
                                   avoid, out)
    if backtracking_hazard(out):
        ctx.fail('tomof:fold-splits-escape-sequence', detail)
        ctx.event('reported-from-scan-only')
        ctx.case(nontrivial=True, classes=cl)
        return
    lexer = _lexer()
    lexer.input(out)
    parts = []
    bad = None
    while True:
        tok = lexer.token()
        if tok is None:
            break
        if tok.type != 'stringValue':
            bad = tok
            break
        parts.append(tok.value)
    if bad is not None:
        if fold_splits_escape(out):
            ctx.fail('tomof:fold-splits-escape-sequence', detail)
        else:
            ctx.fail('lexer-rejects-literal',
                     '%s\ntoken %r' % (detail, bad))
    else:
        try:
            # pylint: disable=protected-access
            got = ''.join(_mof_compiler._fixStringValue(p, None)
                          for p in parts)
        except Exception as exc:  # pylint: disable=broad-except
            if fold_splits_escape(out):
                ctx.fail('tomof:fold-splits-escape-sequence',
                         detail + '\n' + repr(exc))
            else:
                ctx.fail_exc(exc, 'unescape-raises')
            got = s
        if got != s:
            ctx.fail(_scalar_sig('string', s, got, out, 'value'),
                     '%s\nparts denote %r' % (detail, got))
    ctx.case(nontrivial=bool(esc or 'fold' in cl), classes=cl)


# ---------------------------------------------------------------------------
# sub-check: handwritten MOF string literals

_SIMPLE_ESC = {'b': '\b', 't': '\t', 'n': '\n', 'f': '\f', 'r': '\r',
               '"': '"', "'": "'", '\\': '\\'}


def _hw_piece():
    lit = st.one_of(
        st.sampled_from(list("abcxyzABCDEF019 ',;{}()/*#$=:") +
                        ['\xe4', '\u20ac', '\U0001F600', '\x7f', '\x85',
                         '\xb2', '\u0663', '\uff11']),   # isdigit() chars
        st.characters(min_codepoint=0x20, blacklist_categories=('Cs',),
                      blacklist_characters='"\\'))
    simple = st.sampled_from(sorted(_SIMPLE_ESC))
    hexe = st.tuples(
        st.sampled_from(['x', 'X']),
        st.one_of(st.sampled_from([1, 9, 0xA, 0x1F, 0x22, 0x27, 0x41, 0x5C,
                                   0x7F, 0xE4, 0xFF, 0x100, 0xFFF, 0x20AC,
                                   0xD7FF, 0xE000, 0xFFFD, 0xFFFF]),
                  st.integers(1, 0xFFFF).filter(
                      lambda v: not 0xD800 <= v <= 0xDFFF)),
        st.integers(1, 4), st.booleans())
    return st.one_of(
        st.tuples(st.just('c'), lit), st.tuples(st.just('c'), lit),
        st.tuples(st.just('e'), simple),
        st.tuples(st.just('x'), hexe))


_HW_SEPS = ['', ' ', '  ', '\n', '\n   ', '\t', ' \n\t ', '\r\n']
_HW_POS = ['qualdecl', 'propdefault', 'qualvalue', 'instvalue', 'array']


def handwritten_strategy():
    part = st.lists(_hw_piece(), max_size=8)
    return st.tuples(
        st.lists(part, min_size=1, max_size=4),
        st.lists(st.sampled_from(_HW_SEPS), min_size=3, max_size=3),
        st.sampled_from(_HW_POS))


def _hw_render(parts):
    """
    -> (list of literal source texts, denoted string, stats).  A \\x escape
    with fewer than 4 digits that would be followed by a hex digit character
    in the same part ends the part there (keeps the denotation unambiguous).
    """
    srcs = []
    denoted = []
    stats = set()
    for part in parts:
        cur = []
        short_hex = False
        for kind, p in part:
            if kind == 'c':
                if short_hex and p in _HEX:
                    srcs.append(''.join(cur))
                    cur = []
                cur.append(p)
                denoted.append(p)
                short_hex = False
                if p == "'":
                    stats.add('raw-apostrophe')
            elif kind == 'e':
                cur.append('\\' + p)
                denoted.append(_SIMPLE_ESC[p])
                short_hex = False
                stats.add('esc:' + ('quote' if p == '"' else
                                    'apostrophe' if p == "'" else
                                    'backslash' if p == '\\' else p))
            else:
                x, code, ndig, upper = p
                h = ('%X' if upper else '%x') % code
                h = h.rjust(max(ndig, len(h)), '0')
                cur.append('\\' + x + h)
                denoted.append(chr(code))
                short_hex = len(h) < 4
                stats.add('esc:%s%d' % (x, len(h)))
        srcs.append(''.join(cur))
    return srcs, ''.join(denoted), stats


def _nonascii_digit_after_short_hex(parts):
    "a \\x escape of < 4 digits directly followed by e.g. SUPERSCRIPT TWO"
    for part in parts:
        for (k1, p1), (k2, p2) in zip(part, part[1:]):
            if k1 == 'x' and k2 == 'c' and ord(p2) > 127 and p2.isdigit():
                if max(p1[2], len('%x' % p1[1])) < 4:
                    return True
    return False


def _hex_escape_reaches_end(src):
    """
    True if the literal ends with \\x + fewer than 4 characters that are hex
    digits or accepted by str.isdigit()
    """
    m = re.search(r'\\[xX](.{0,3})$', src, re.S)
    return bool(m) and all(c in _HEX or c.isdigit() for c in m.group(1)) \
        and not re.search(r'(?<!\\)(\\\\)+[xX].{0,3}$', src, re.S)


def _decode_swallowing(src):
    """
    What a literal denotes for a decoder that takes every character with
    str.isdigit() for a hex digit (used to name that root cause only).
    None if that decoder would fail.
    """
    out = []
    i = 0
    while i < len(src):
        c = src[i]
        if c != '\\':
            out.append(c)
            i += 1
        elif src[i + 1] in 'xX':
            j, val, n = i + 2, 0, 0
            while n < 4 and j < len(src):
                d = src[j]
                if d in _HEX:
                    val = (val << 4) | int(d, 16)
                elif d.isdigit():
                    val = (val << 4) | (ord(d) - ord('0'))
                else:
                    break
                j += 1
                n += 1
            if val >= 0x110000:
                return None
            out.append(chr(val))
            i = j
        else:
            out.append(_SIMPLE_ESC[src[i + 1]])
            i += 2
    return ''.join(out)


def handwritten_oracle(ctx, ex):
    parts, seps, pos = ex
    srcs, denoted, stats = _hw_render(parts)
    lit = ''
    for i, s in enumerate(srcs):
        if i:
            lit += seps[(i - 1) % len(seps)]
        lit += '"%s"' % s
    if pos == 'qualdecl':
        text = 'Qualifier Q : string = %s, Scope(any);\n' % lit
    elif pos == 'propdefault':
        text = 'class C {\n  string P = %s;\n};\n' % lit
    elif pos == 'qualvalue':
        text = ('Qualifier Q : string, Scope(any);\n'
                '[Q(%s)] class C {\n};\n' % lit)
    elif pos == 'instvalue':
        text = ('class C {\n  string P;\n};\n'
                'instance of C {\n  P = %s;\n};\n' % lit)
    else:
        text = ('class C {\n  string P[];\n};\n'
                'instance of C {\n  P = { "a", %s, "z" };\n};\n' % lit)

    def fetch(conn):
        if pos == 'qualdecl':
            return conn.qualifiers[NS]['Q'].value
        if pos == 'propdefault':
            return conn.classes[NS]['C'].properties['P'].value
        if pos == 'qualvalue':
            return conn.classes[NS]['C'].qualifiers['Q'].value
        v = conn.instances[NS][0].properties['P'].value
        if pos == 'array':
            if not isinstance(v, list) or len(v) != 3 or v[0] != 'a' or \
                    v[2] != 'z':
                return ('array-shape', v)
            return v[1]
        return v

    def exc_sig(exc):
        # a literal that ends with a hex escape of < 4 digits (possibly
        # "continued" by characters that str.isdigit() accepts)
        if isinstance(exc, IndexError) and any(
                re.search(r'\\[xX][0-9a-fA-F]{1,3}$', s) or
                _hex_escape_reaches_end(s) for s in srcs):
            return 'compiler:short-hex-escape-at-end-of-literal-raises-' \
                'IndexError'
        if isinstance(exc, ValueError) and \
                _nonascii_digit_after_short_hex(parts) and \
                any(_decode_swallowing(x) is None for x in srcs):
            return 'compiler:hex-escape-swallows-non-ascii-digit'
        if isinstance(exc, MOFCompileError):
            return 'compile-rejected:%s:%s' % (type(exc).__name__,
                                               _norm_msg(exc.msg or ''))
        return None

    def evaluate(conn):
        got = fetch(conn)
        if got == denoted:
            return []
        detail = 'denotes %r, compiled %r' % (denoted, got)
        if not isinstance(got, str):
            return [('value:wrong-shape', detail)]
        apos = "\\'" in ''.join(srcs)

        def less_apostrophes(x, y):
            return apos and x.replace("'", '') == y.replace("'", '') and \
                x.count("'") < y.count("'")
        swallowed = None
        if _nonascii_digit_after_short_hex(parts):
            dec = [_decode_swallowing(x) for x in srcs]
            if None not in dec:
                swallowed = ''.join(dec)
        if less_apostrophes(got, denoted):
            return [('compiler:escaped-apostrophe-dropped', detail)]
        if swallowed is not None and got == swallowed:
            return [('compiler:hex-escape-swallows-non-ascii-digit', detail)]
        if swallowed is not None and less_apostrophes(got, swallowed):
            return [('compiler:escaped-apostrophe-dropped', detail),
                    ('compiler:hex-escape-swallows-non-ascii-digit', detail)]
        return [('value:string:changed', detail)]
    roundtrip(ctx, text, 'hand-written MOF', evaluate, guard=False,
              exc_sig=exc_sig)
    cl = set(stats)
    cl.add('pos:' + pos)
    cl.add('parts:%d' % len(srcs))
    ctx.case(nontrivial=bool(len(srcs) > 1 or
                             any(s.startswith('esc:') for s in stats)),
             classes=cl)


# ---------------------------------------------------------------------------
# sub-check: non-ASCII identifiers

def nonascii_strategy():
    letter = st.sampled_from(['\xe4', '\xe9', '\xd6', '\u03b1', '\u0416',
                              '\u4e2d', '\uff21'])
    name = st.builds(lambda a, b, c: a + b + c, S.ident(1, 4), letter,
                     st.text(alphabet=_ID_CONT, max_size=4))
    return st.tuples(name, name, st.sampled_from(['class', 'property',
                                                  'both']))


def nonascii_oracle(ctx, ex):
    cname, pname, where = ex
    if where == 'class':
        pname = 'P'
    elif where == 'property':
        cname = 'C'
    orig = CIMClass(cname, properties=[CIMProperty(pname, None,
                                                   type='uint8')])
    text = orig.tomof()

    def exc_sig(exc):
        if isinstance(exc, MOFCompileError):
            return 'compiler:non-ascii-identifier-rejected'
        return None

    def evaluate(conn):
        d = Diff(text)
        try:
            diff_class(d, orig, conn.classes[NS][cname])
        except KeyError:
            d.add('compiled-object-missing', 'class', cname, None)
        return d.items
    roundtrip(ctx, text, 'class', evaluate, exc_sig=exc_sig)
    ctx.case(nontrivial=True, classes=('where:' + where,))


# ---------------------------------------------------------------------------
# sub-check: session (ONE MOFCompiler object, several compilations; objects
# that are printed again after a modification in place)

SESSION_QNAME = st.one_of(
    st.sampled_from(['Description', 'Q1', 'Key', 'Version']),
    st.sampled_from(['Description', 'Q1', 'Key', 'Version']), QUAL_NAME)
SESSION_CNAME = st.one_of(
    st.sampled_from(['CIM_Foo', 'C1', 'My_Class']),
    st.sampled_from(['CIM_Foo', 'C1', 'My_Class']), CLASSNAME)
SESSION_POOL = st.lists(qualdecl_recipe(for_use=True, names=SESSION_QNAME),
                        min_size=1, max_size=3,
                        unique_by=lambda d: d['name'].lower())
SESSION_QUALDECL = qualdecl_recipe(names=SESSION_QNAME)
SESSION_INST = inst_case(classnames=SESSION_CNAME)
SESSION_KIND0 = st.sampled_from(['cls'] * 4 + ['inst'] * 3 + ['qualdecl'])
SESSION_KIND = st.sampled_from(['cls'] * 4 + ['inst'] * 3 + ['variant'] * 3 +
                               ['qualdecl'] * 2)
SESSION_MASK = st.sampled_from([0, 1, 2, 3, 4, 5, 6, 7, 9, 10, 12, 21, 42,
                                85, 170, 255])
SESSION_LEN = st.integers(3, 6)
NS2 = 'root/c08b'
SESSION_NS = st.sampled_from([NS] * 5 + [NS2])


@st.composite
def session_case(draw):
    """
    {'steps': [...]}, all steps are run with the same MOFCompiler; the last
    element of every step is the target namespace (one of two):
      ('qualdecl', recipe, maxline)  tomof() of a declaration (default
                                     value, scopes) whose name may be in use
      ('cls', cls_case, resend)      class that uses declarations of a pool
                                     in which names recur with other flavors/
                                     types; resend=False: declarations and
                                     stub classes that are current in the
                                     session are not sent again
      ('inst', inst_case, resend)    same for an instance and its classes
      ('variant', k, mask, maxline)  the object of the k-th earlier cls/inst
                                     step is modified in place (mask selects
                                     the elements; 0 = unchanged), printed
                                     and compiled again
    """
    pool = draw(SESSION_POOL)
    for i, d in enumerate(list(pool)):
        # a second declaration of the same name: other flavors, sometimes
        # also another type
        if i and draw(SMALL) < 3:
            continue
        twin = draw(qualdecl_recipe(for_use=True,
                                    names=st.just(d['name'])))
        if draw(SMALL) < 6:
            for k in ('type', 'is_array', 'array_size'):
                twin[k] = d[k]
        if draw(SMALL) == 7:
            twin['name'] = _swap(twin['name'], draw(MASK))
        pool.append(twin)
    decl_lists = st.lists(st.sampled_from(pool), min_size=1, max_size=3,
                          unique_by=lambda d: d['name'].lower())
    cls_cases = cls_case(decl_lists, SESSION_CNAME)
    steps = []
    for i in range(draw(SESSION_LEN)):
        kind = draw(SESSION_KIND if i else SESSION_KIND0)
        if kind == 'qualdecl':
            step = ('qualdecl', draw(SESSION_QUALDECL), draw(MAXLINE))
        elif kind == 'cls':
            case = draw(cls_cases)
            d = case['decls'][0]
            if d['name'].lower() not in _used_qualifier_names(case['cls']):
                # every class of a session uses its first declaration
                case['cls']['qualifiers'].append(_qual_of(
                    d, d['name'], draw(value_for(
                        d['type'], d['is_array'], 1, d['array_size']))))
            step = ('cls', case, draw(st.booleans()))
        elif kind == 'inst':
            step = ('inst', draw(SESSION_INST), draw(st.booleans()))
        else:
            step = ('variant', draw(SMALL), draw(SESSION_MASK),
                    draw(MAXLINE))
        steps.append(step + (draw(SESSION_NS),))
    return {'steps': steps}


CLASS_SPLIT_RE = re.compile(r'(?m)^(?=class )')


def _decl_key(d):
    "what a hand-written declaration (decl_mof) says, without the spelling"
    return (d['type'], d['is_array'], d['array_size'], tuple(d['scopes']),
            d['overridable'], d['tosubclass'], bool(d['translatable']),
            d['value'] is None)


def _decl_flavors(d):
    return (True if d['overridable'] is None else d['overridable'],
            True if d['tosubclass'] is None else d['tosubclass'],
            bool(d['translatable']))


def _used_qualifier_names(r):
    return {x['name'].lower() for x in S.walk(r)
            if isinstance(x, dict) and x.get('k') == 'qual'}


def vary_class(obj, r, mask):
    """
    Modify the CIMClass obj in place through its documented attributes and
    the recipe r alike: for the selected elements a default value becomes
    NULL, a property without default value, a method or a class qualifier is
    deleted.  Returns the number of modifications.
    """
    n = 0
    j = 0
    for p in list(r['properties']):
        sel = (mask >> (j % 8)) & 1
        j += 1
        if not sel:
            continue
        n += 1
        if p['value'] is not None:
            p['value'] = None
            obj.properties[p['name']].value = None
        else:
            r['properties'].remove(p)
            del obj.properties[p['name']]
    for m in list(r['methods']):
        sel = (mask >> (j % 8)) & 1
        j += 1
        if sel:
            n += 1
            r['methods'].remove(m)
            del obj.methods[m['name']]
    for q in list(r['qualifiers']):
        sel = (mask >> (j % 8)) & 1
        j += 1
        if sel:
            n += 1
            r['qualifiers'].remove(q)
            del obj.qualifiers[q['name']]
    return n


def vary_instance(obj, r, mask):
    """
    Same for a CIMInstance: the value of a selected property becomes NULL;
    a property that is NULL already (or holds embedded objects) is deleted,
    unless it is the last one.
    """
    n = 0
    j = 0
    for p in r['props']:
        if not p['in_inst']:
            continue
        sel = (mask >> (j % 8)) & 1
        j += 1
        if not sel:
            continue
        if p['value'] is not None and not p['emb']:
            p['value'] = None
            obj.properties[p['spell']].value = None
            n += 1
        elif sum(1 for x in r['props'] if x['in_inst']) > 1:
            p['in_inst'] = False
            del obj.properties[p['spell']]
            n += 1
    return n


class _Session:
    """
    One MOFCompiler on one MOFWBEMConnection and a model of what has been
    compiled with it: the current declaration of every qualifier name, the
    current MOF of every class name, per namespace.
    """

    def __init__(self, real):
        self.real = real
        self.comp, self.conn = _new_compiler(real)
        # keys: (namespace, name.lower())
        self.decls = {}         # -> _decl_key() | ('tomof', n)
        self.flavors_used = {}  # -> flavors at the last use
        self.types_used = {}
        self.classdefs = {}     # -> MOF text | ('cls', n)
        self.emb_sent = set()   # namespaces
        self.objs = []          # [kind, case (own copy), object]
        # (kind, ns, name, recipe copy, compiled object, signatures found
        # when it was compiled)
        self.results = []
        self.last_sigs = frozenset()
        self.sent = []
        self.found = []
        self.events = []
        self.classes = set()
        self.compiled = 0
        self.ninst = 0
        self.dead = False

    # -- bookkeeping

    def event(self, name):
        self.events.append(name)

    def _history(self):
        txt = '\n--- next compile_string() ---\n'.join(self.sent)
        if len(txt) > 2500:
            txt = '...' + txt[-2500:]
        return txt

    def _pre(self, ns, decls, class_mof, resend):
        """
        -> (text to send, complete text, commit()): EmbeddedInstance/
        EmbeddedObject declarations once per session; declarations and
        classes that are current in the session only if resend.
        """
        send = [] if ns in self.emb_sent else [EMB_DECLS]
        full = [EMB_DECLS]
        todo = []
        for d in decls:
            txt = decl_mof(d)
            full.append(txt)
            key = (ns, d['name'].lower())
            if not resend and self.decls.get(key) == _decl_key(d):
                self.event('declaration-reused-from-compiler-state')
                self.classes.add('reuses-declaration')
                continue
            if key in self.decls and self.decls[key] != _decl_key(d):
                self.event('qualifier-redeclared')
                self.classes.add('redeclares-qualifier')
            send.append(txt)
            todo.append((self.decls, key, _decl_key(d)))
        for piece in CLASS_SPLIT_RE.split(class_mof):
            if not piece:
                continue
            full.append(piece)
            key = (ns, piece.split()[1].lower())
            if not resend and self.classdefs.get(key) == piece:
                self.event('class-reused-from-compiler-state')
                self.classes.add('reuses-class')
                continue
            if key in self.classdefs and self.classdefs[key] != piece:
                self.event('class-redefined')
                self.classes.add('redefines-class')
            send.append(piece)
            todo.append((self.classdefs, key, piece))

        def commit():
            self.emb_sent.add(ns)
            for dct, key, val in todo:
                dct[key] = val
        return ''.join(send), ''.join(full), commit

    def _note_uses(self, ns, decls, r):
        "classify the qualifier uses of class recipe r against earlier uses"
        used = _used_qualifier_names(r)
        for d in decls:
            if d['name'].lower() not in used:
                continue
            key = (ns, d['name'].lower())
            if key not in self.flavors_used and any(
                    k[1] == key[1] for k in self.flavors_used):
                self.event('qualifier-used-in-second-namespace')
                self.classes.add('qualifier-in-two-namespaces')
            fl = _decl_flavors(d)
            ty = (d['type'], d['is_array'])
            if key in self.flavors_used:
                if self.flavors_used[key] != fl:
                    self.event('qualifier-used-again:other-flavors')
                    self.classes.add('reuses-qualifier-name:other-flavors')
                elif self.types_used[key] != ty:
                    self.event('qualifier-used-again:other-type')
                    self.classes.add('reuses-qualifier-name:other-type')
                else:
                    self.event('qualifier-used-again:same-declaration')
            self.flavors_used[key] = fl
            self.types_used[key] = ty

    # -- one compilation

    def run(self, idx, ns, what, sent, full_fresh, evaluate, commit,
            emb_texts=(), state_prefix='compiler-state'):
        """
        compile_string(sent) with the session's compiler and evaluate; what
        is found is reported unless a new compiler finds the same for the
        complete text of a newly built equal object (then it is the business
        of the other sub-checks).  evaluate(conn, n_before) -> [(sig, ..)].
        """
        if backtracking_hazard(full_fresh) or backtracking_hazard(sent) or \
                any(backtracking_hazard(t) for t in emb_texts):
            self.event('step-skipped:backtracking-hazard')
            return False
        n_before = len(self.conn.instances.get(ns, []))
        if ns != NS:
            self.classes.add('second-namespace')
        exc = None
        try:
            with warnings.catch_warnings():
                warnings.simplefilter('ignore')
                self.comp.compile_string(sent, ns)
        except Exception as e:  # pylint: disable=broad-except
            exc = e
        self.sent.append('// namespace %s\n%s' % (ns, sent))
        self.compiled += 1
        found = outcome(self.conn, exc, sent, what,
                        lambda conn: evaluate(conn, n_before), emb_texts)
        self.last_sigs = frozenset(s for s, _ in found)
        if found:
            conn2, exc2 = compile_mof(full_fresh, self.real, guard=False,
                                      ns=ns)
            base = outcome(conn2, exc2, full_fresh, what,
                           lambda conn: evaluate(conn, 0), emb_texts)
            base_sigs = {s for s, _ in base}
            new = [(s, d) for s, d in found if s not in base_sigs]
            if not new:
                self.event('step-fails-with-new-compiler-too')
            for sig, detail in new:
                self.found.append((
                    '%s:%s' % (state_prefix, sig),
                    'step %d (%s), compilation %d of one MOFCompiler; a new '
                    'MOFCompiler yields %s for the same object.\n%s\n'
                    '=== all compile_string() texts of the session ===\n%s'
                    % (idx, what, self.compiled,
                       sorted(base_sigs) or 'an equal object', detail,
                       self._history())))
        if exc is not None:
            # the state of a compiler after an error is not defined
            self.event('session-ended-by-compile-error')
            self.dead = True
            return False
        commit()
        return True

    # -- steps

    def step_qualdecl(self, idx, r, maxline, ns):
        orig = S.build(r)
        text = orig.tomof(maxline=maxline)
        key = (ns, r['name'].lower())

        def evaluate(conn, n_before):
            d = Diff(text)
            try:
                got = conn.qualifiers[ns][orig.name]
            except KeyError:
                d.add('compiled-object-missing', 'qualifier declaration',
                      orig.name, None)
                return d.items
            diff_qualdecl(d, orig, got)
            return d.items

        def commit():
            if key in self.decls:
                self.event('qualifier-redeclared')
                self.classes.add('redeclares-qualifier')
            self.decls[key] = _decl_key(r) if r['value'] is None and \
                r['toinstance'] is None else ('tomof', idx)
        if self.run(idx, ns, 'qualifier declaration', text, text, evaluate,
                    commit):
            self.results.append(('qualdecl', ns, orig.name, copy.deepcopy(r),
                                 self.conn.qualifiers[ns].get(orig.name),
                                 self.last_sigs))

    def _tomof_pair(self, idx, obj, fresh, maxline):
        """
        tomof() of the session's object and of a newly built equal object
        -> (text, fresh text, prefix) or None if the step cannot be run
        """
        try:
            ftext = fresh.tomof(maxline=maxline)
        except ValueError:
            # unsplittable number on a short line: known finding of cls
            self.event('step-skipped:tomof-raises-for-new-object-too')
            return None
        if obj is fresh:
            return ftext, ftext, 'compiler-state'
        try:
            text = obj.tomof(maxline=maxline)
        except Exception as exc:  # pylint: disable=broad-except
            self.found.append((
                'object-state:tomof-raises:' + (exc_signature(exc) or
                                                type(exc).__name__),
                'step %d: tomof() of an object modified in place raises, '
                'tomof() of a newly built equal object does not\n%s' %
                (idx, exc_detail(exc, 4))))
            return None
        if text != ftext:
            self.event('variant:text-differs-from-new-equal-object')
            return text, ftext, 'object-state'
        return text, ftext, 'compiler-state'

    def step_cls(self, idx, case, resend, ns, obj=None, maxline=None):
        "obj: object modified in place (variant); else built from the case"
        r = case['cls']
        maxline = case['maxline'] if maxline is None else maxline
        fresh = S.build(r)
        if obj is None:
            obj = fresh
        pair = self._tomof_pair(idx, obj, fresh, maxline)
        if pair is None:
            return None
        body, fbody, prefix = pair
        stubs = ''.join('class %s {\n};\n' % n for n in cls_stub_names(r))
        pre, full, commit0 = self._pre(ns, case['decls'], stubs, resend)
        self._note_uses(ns, case['decls'], r)
        key = (ns, r['classname'].lower())
        if key in self.classdefs:
            self.event('class-redefined')
            self.classes.add('redefines-class')

        def evaluate(conn, n_before):
            d = Diff(body)
            try:
                got = conn.classes[ns][fresh.classname]
            except KeyError:
                d.add('compiled-object-missing', 'class', fresh.classname,
                      None)
                return d.items
            diff_class(d, fresh, got)
            return d.items

        def commit():
            commit0()
            self.classdefs[key] = ('cls', idx)
        if self.run(idx, ns, 'class', pre + body, full + fbody, evaluate,
                    commit, state_prefix=prefix):
            self.results.append(('cls', ns, fresh.classname,
                                 copy.deepcopy(r),
                                 self.conn.classes[ns].get(fresh.classname),
                                 self.last_sigs))
        return obj

    def step_inst(self, idx, case, resend, ns, obj=None, maxline=None):
        r = case['inst']
        maxline = case['maxline'] if maxline is None else maxline
        fresh = build_c08inst(r)
        if obj is None:
            obj = fresh
        pair = self._tomof_pair(idx, obj, fresh, maxline)
        if pair is None:
            return None
        body, fbody, prefix = pair
        embt = embedded_texts(obj)
        pre, full, commit = self._pre(ns, [], inst_dep_mof(r), resend)
        defaults = class_defaults(r)

        def evaluate(conn, n_before):
            d = Diff(body)
            d.defaults = defaults
            insts = conn.instances.get(ns, [])[n_before:]
            if len(insts) != 1:
                d.add('compiled-object-missing', 'new instances', 1,
                      len(insts))
                return d.items
            diff_instance(d, 'instance', fresh, insts[0])
            return d.items
        if self.run(idx, ns, 'instance', pre + body, full + fbody, evaluate,
                    commit, emb_texts=embt, state_prefix=prefix):
            self.results.append(('inst', ns, None, copy.deepcopy(r),
                                 self.conn.instances[ns][-1],
                                 self.last_sigs))
        return obj

    def step_variant(self, idx, k, mask, maxline, ns):
        if not self.objs:
            self.event('variant:no-earlier-object')
            return
        ent = self.objs[k % len(self.objs)]
        kind, case, obj = ent
        if kind == 'cls':
            n = vary_class(obj, case['cls'], mask)
            done = self.step_cls(idx, case, False, ns, obj, maxline)
        else:
            n = vary_instance(obj, case['inst'], mask)
            done = self.step_inst(idx, case, False, ns, obj, maxline)
        if done is not None:
            what = 'modified-in-place' if n else 'unchanged'
            self.event('variant:%s:%s' % (kind, what))
            self.classes.add('variant:' + what)

    def recheck(self):
        """
        What earlier compilations produced (and no later one replaced) is
        still equal to its original at the end of the session.
        """
        for kind, ns, name, r, got, sigs in self.results:
            d = Diff('')
            if kind == 'qualdecl':
                if self.conn.qualifiers[ns].get(name) is not got:
                    continue
                diff_qualdecl(d, S.build(r), got)
            elif kind == 'cls':
                if self.conn.classes[ns].get(name) is not got:
                    continue
                diff_class(d, S.build(r), got)
            else:
                d.defaults = class_defaults(r)
                diff_instance(d, 'instance', build_c08inst(r), got)
            self.event('rechecked-at-end:' + kind)
            for sig, detail in d.items:
                if sig in sigs:
                    # found (or left to another sub-check) when compiled
                    continue
                self.found.append((
                    'compiler-state:earlier-result-changed:' + sig,
                    '%s %s compiled earlier in the session differs from its '
                    'original at the end of the session: %s\n=== all '
                    'compile_string() texts of the session ===\n%s' %
                    (kind, name, detail, self._history())))


def run_session(ex, real):
    sess = _Session(real)
    for idx, step in enumerate(copy.deepcopy(ex['steps'])):
        kind = step[0]
        if kind == 'qualdecl':
            sess.step_qualdecl(idx, step[1], step[2], step[3])
        elif kind == 'cls':
            obj = sess.step_cls(idx, step[1], step[2], step[3])
            if obj is not None:
                sess.objs.append(['cls', step[1], obj])
        elif kind == 'inst':
            obj = sess.step_inst(idx, step[1], step[2], step[3])
            if obj is not None:
                sess.objs.append(['inst', step[1], obj])
        else:
            sess.step_variant(idx, step[1], step[2], step[3], step[4])
        if sess.dead:
            break
    if not sess.dead:
        sess.recheck()
    return sess


def session_oracle(ctx, ex):
    sess = run_session(ex, False)
    sigs = sorted({s for s, _ in sess.found})
    if sigs and not all(s in _CONFIRMED for s in sigs):
        again = run_session(ex, True)
        if sorted({s for s, _ in again.found}) != sigs:
            ctx.event('prototype-compiler-discrepancy')
        else:
            _CONFIRMED.update(sigs)
        sess = again
    seen = set()
    for sig, detail in sess.found:
        if sig not in seen:
            seen.add(sig)
            ctx.fail(sig, detail)
    for name in sess.events:
        ctx.event(name)
    cl = set(sess.classes)
    cl.add('compilations:%d' % min(sess.compiled, 6))
    ctx.case(nontrivial=sess.compiled >= 2 and bool(sess.classes),
             classes=cl)


def session_strategy():
    return session_case()


# ---------------------------------------------------------------------------

def cls_strategy():
    return cls_case()


def inst_strategy():
    return inst_case()


SUBCHECKS = [
    Sub('mofstr', strategy=mofstr_strategy, oracle=mofstr_oracle,
        quick=(16, 1250), thorough=(16, 60000), case_timeout=20),
    Sub('handwritten', strategy=handwritten_strategy,
        oracle=handwritten_oracle, quick=(16, 250), thorough=(16, 12000),
        case_timeout=20),
    Sub('qualdecl', strategy=qualdecl_strategy, oracle=qualdecl_oracle,
        quick=(16, 700), thorough=(16, 12000), case_timeout=20),
    Sub('cls', strategy=cls_strategy, oracle=cls_oracle,
        quick=(16, 500), thorough=(16, 8000), case_timeout=20),
    Sub('inst', strategy=inst_strategy, oracle=inst_oracle,
        quick=(16, 500), thorough=(16, 8000), case_timeout=20),
    Sub('nonascii', strategy=nonascii_strategy, oracle=nonascii_oracle,
        quick=(1, 40), thorough=(1, 200)),
    Sub('session', strategy=session_strategy, oracle=session_oracle,
        quick=(16, 90), thorough=(16, 1500), case_timeout=60),
]
