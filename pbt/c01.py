"""
C01 - CIM objects survive the CIM-XML wire format unchanged.  DESIGN.md 4.1.
"""

from hypothesis import strategies as st

import pywbem
from pywbem import (CIMInstanceName, CIMClassName, CIMInstance, CIMClass,
                    CIMProperty, CIMMethod, CIMParameter, CIMQualifier,
                    CIMQualifierDeclaration)
from pywbem import _cim_xml
from pywbem._cim_types import atomic_to_cim_xml
from pywbem._tupleparse import TupleParser
from pywbem._tupletree import xml_to_tupletree_sax

from .runner import Sub
from . import strategies as S
from .normalize import canon, vcanon, Opts, diff_path

PROPERTY = 'C01'
RULE = (
    "Hypothesis draws recipes for every encodable kind (instance path, class "
    "path, instance with/without path -> INSTANCE / VALUE.NAMEDINSTANCE / "
    "VALUE.OBJECTWITHLOCALPATH / VALUE.INSTANCEWITHPATH, class, property, "
    "method, parameter declaration, parameter value (PARAMVALUE), qualifier, "
    "qualifier declaration, bare typed values) with all 15 types, NULLs, NULL "
    "array entries, XML-sensitive strings, embedded objects to depth 3, "
    "nested reference keys, all tri-state attribute combinations, both "
    "escaping modes (_CDATA_ESCAPING False/True).  Oracle: tocimxml().toxml() "
    "-> xml_to_tupletree_sax -> TupleParser.parse_any gives an object whose "
    "canonical form equals the original's with None attributes replaced by "
    "the DSP0201 defaults; re-encoding the parsed object and parsing again "
    "changes neither object nor bytes.  Non-trivial = the object contains a "
    "NULL array entry, a non-ASCII/markup/whitespace-sensitive string, an "
    "embedded object, a nested reference key or a non-default attribute. "
    "Distinct = distinct recipe.")
ASSUMPTIONS = [
    "names are DSP0004 identifiers (ASCII); strings are XML 1.0 Char only",
    "documented loss is normalised on the expected side: CIMClass.path is "
    "not transmitted; a parameter declaration carries no value; a PARAMVALUE "
    "carries no qualifiers/array_size/reference_class; Char16 keybindings "
    "come back as str (TYPE=\"char16\" is checked on the XML); plain "
    "int/float keybindings stay untyped; is_array of a NULL-valued qualifier "
    "cannot be expressed by a QUALIFIER element; a host without namespace "
    "cannot be expressed (generator never produces it); scopes compare as the "
    "set of true scopes with ANY == all seven",
    "real32 values are compared at float32 precision (DSP0201 asks for 11 "
    "significant digits, 9 identify a float32)",
    "array properties/qualifiers with reference type and keybindings with "
    "NULL values are outside the domain (pywbem rejects/asserts them)",
]
SENSITIVITY = [
    'real32 written with .7G instead of .11G -> roundtrip:string-exact:other / paramvalue:typed-value',
    'unpack_boolean accepting only lower case -> own-xml-rejected:CIMXMLParseError:Invalid_boolean_value',
    'QUALIFIER/QUALIFIER.DECLARATION writing TOSUBCLASS into TOINSTANCE -> roundtrip:attribute-boolean',
    'parse_parameter_refarray forgetting ARRAYSIZE -> roundtrip:null-vs-value',
    "text node writer not escaping '&' -> own-xml-rejected + roundtrip:string-exact:other",
    'CIMInstanceName.tocimxml iterating sorted(keybindings) -> roundtrip:string-exact:other (order)',
]

KINDS = ['ipath', 'cpath', 'inst', 'class', 'prop', 'meth', 'param_decl',
         'param_value', 'qual', 'qualdecl', 'value']


def strategy():
    def rec(kind):
        if kind == 'ipath':
            return S.instance_path(depth=2)
        if kind == 'cpath':
            return S.class_path()
        if kind == 'inst':
            return S.cim_instance(depth=2)
        if kind == 'class':
            return S.cim_class(depth=1)
        if kind == 'prop':
            return S.cim_property(depth=2)
        if kind == 'meth':
            return S.cim_method()
        if kind == 'param_decl':
            return S.cim_parameter()
        if kind == 'param_value':
            return S.cim_parameter(with_value=True, quals=False)
        if kind == 'qual':
            return S.qualifier()
        if kind == 'qualdecl':
            return S.qualifier_declaration()
        if kind == 'value':
            return S.typed_value(S.ALL_TYPES).map(
                lambda tv: {'k': 'value', 'type': tv[0], 'is_array': tv[1],
                            'value': tv[2]})
        raise ValueError(kind)
    return st.sampled_from(KINDS).flatmap(
        lambda k: st.tuples(st.just(k), rec(k), st.booleans()))


def _parse(xml):
    tt = xml_to_tupletree_sax(xml, 'C01 test')
    return TupleParser().parse_any(tt)


def _unwrap(r):
    "some parse_ functions return (name, attrs, child)"
    if isinstance(r, tuple) and len(r) == 3 and isinstance(r[1], dict):
        return r[2]
    return r


def _expected_obj(kind, recipe):
    "object the parse side is expected to deliver (documented loss applied)"
    obj = S.build(recipe)
    if kind == 'class':
        obj.path = None
    return obj


OPT = Opts(defaults=True, untyped_keys=False)


def _nontrivial(recipe):
    if S.has_null_entry(recipe) or S.interesting_string(recipe) or \
            S.embedded_depth(recipe) > 0 or S.has_nested_ref(recipe):
        return True
    for x in S.walk(recipe):
        if isinstance(x, dict):
            for a in ('propagated', 'overridable', 'tosubclass', 'toinstance',
                      'translatable', 'class_origin', 'array_size',
                      'reference_class'):
                if x.get(a) is not None:
                    return True
    return False


def _classes(kind, recipe):
    cl = ['kind:' + kind]
    if S.has_null_entry(recipe):
        cl.append('null-array-entry')
    if S.interesting_string(recipe):
        cl.append('sensitive-string')
    d = S.embedded_depth(recipe)
    if d:
        cl.append('embedded-depth-%d' % d)
    if S.has_nested_ref(recipe):
        cl.append('nested-ref-key')
    for x in S.walk(recipe):
        if isinstance(x, str):
            if '\r' in x:
                cl.append('string-with-CR')
                break
    return cl


def _string_sig(a, b):
    "classify a string difference"
    return None


def _classify_diff(kind, recipe, ca, cb):
    "root-cause key for a canonical-form difference"
    d = diff_path(ca, cb) or ''
    # find the differing leaf values
    leaf = _leaf_diff(ca, cb)
    if leaf is not None:
        x, y = leaf
        if isinstance(x, str) and isinstance(y, str):
            if x.replace('\r\n', '\n').replace('\r', '\n') == y:
                return 'string-exact:CR-normalised-to-LF'
            if x.strip() == y.strip():
                return 'string-exact:whitespace-changed'
            return 'string-exact:other'
        if x is None or y is None:
            return 'null-vs-value'
        if isinstance(x, bool) or isinstance(y, bool):
            return 'attribute-boolean'
    return 'structure:' + kind


def _leaf_diff(a, b):
    if a == b:
        return None
    if isinstance(a, tuple) and isinstance(b, tuple) and len(a) == len(b):
        for x, y in zip(a, b):
            r = _leaf_diff(x, y)
            if r is not None:
                return r
        return None
    return (a, b)


def _value_xml(recipe):
    v = S.build_value(recipe['type'], recipe['value'])
    return v


def oracle(ctx, ex):
    kind, recipe, cdata = ex
    old = _cim_xml._CDATA_ESCAPING
    _cim_xml._CDATA_ESCAPING = cdata
    try:
        _oracle(ctx, kind, recipe, cdata)
    finally:
        _cim_xml._CDATA_ESCAPING = old
    ctx.case(nontrivial=_nontrivial(recipe),
             classes=_classes(kind, recipe) + ['cdata' if cdata else 'entity'])


def _oracle(ctx, kind, recipe, cdata):
    if kind == 'value':
        return _oracle_value(ctx, recipe)
    if kind == 'param_value':
        return _oracle_paramvalue(ctx, recipe)
    obj = S.build(recipe)
    x1 = obj.tocimxml().toxml()
    try:
        o2 = _unwrap(_parse(x1))
    except pywbem.Error as exc:
        ctx.fail('own-xml-rejected:' + _msg_key(exc),
                 '%s\nXML: %s' % (exc, x1[:1500]))
        return
    exp = _expected_obj(kind, recipe)
    ce = canon(exp, OPT)
    c2 = canon(o2, OPT)
    ce, c2 = _apply_loss(kind, ce), _apply_loss(kind, c2)
    if ce != c2:
        sig = _classify_diff(kind, recipe, ce, c2)
        ctx.fail('roundtrip:' + sig,
                 'first difference: %s\nXML: %s' % (diff_path(ce, c2),
                                                    x1[:1500]))
        if sig != 'string-exact:CR-normalised-to-LF':
            return
        # look behind the CR finding: with end-of-line normalisation applied
        # to the expectation everything else must still agree
        ce = _crnorm(ce)
        if ce != c2:
            ctx.fail('roundtrip:' + _classify_diff(kind, recipe, ce, c2),
                     'first difference: %s\nXML: %s' % (diff_path(ce, c2),
                                                        x1[:1500]))
            return
    # second generation: encoding and parsing the parsed object once more
    # changes nothing
    x2 = o2.tocimxml().toxml()
    try:
        o3 = _unwrap(_parse(x2))
    except pywbem.Error as exc:
        ctx.fail('own-xml-rejected-2nd:' + _msg_key(exc),
                 '%s\nXML: %s' % (exc, x2[:1500]))
        return
    x3 = o3.tocimxml().toxml()
    if x3 != x2:
        ctx.fail('idempotence:xml-differs',
                 'x2=%s\nx3=%s' % (x2[:1000], x3[:1000]))
    elif canon(o3, Opts()) != canon(o2, Opts()):
        ctx.fail('idempotence:object-differs',
                 diff_path(canon(o2, Opts()), canon(o3, Opts())))
    elif not _has_nan(recipe) and not (o3 == o2):
        ctx.fail('idempotence:not-equal', '%r != %r' % (o2, o3))


def _sig(prefix, cls):
    "one signature for the CR root cause whatever the channel"
    if cls == 'string-exact:CR-normalised-to-LF':
        return 'roundtrip:' + cls
    return prefix + cls


def _crnorm(c):
    if isinstance(c, tuple):
        return tuple(_crnorm(x) for x in c)
    if isinstance(c, str):
        return c.replace('\r\n', '\n').replace('\r', '\n')
    return c


def _msg_key(exc):
    "stable key from a parse error message: element names and keywords only"
    import re
    msg = str(exc.args[0] if exc.args else exc)
    words = re.findall(r"[A-Za-z][A-Za-z._]+", msg)[:9]
    return type(exc).__name__ + ':' + '_'.join(words)


def _has_nan(recipe):
    for x in S.walk(recipe):
        if isinstance(x, float) and x != x:
            return True
    return False


def _apply_loss(kind, c):
    """
    Normalisations for information DSP0201 cannot carry (see ASSUMPTIONS),
    applied to both sides.
    """
    if not isinstance(c, tuple):
        return c
    if c and c[0] == 'qual':
        # c = ('qual', name, type, value, flavors...): nothing to do; the
        # is_array attribute is not part of the canonical form
        return c
    if c and c[0] == 'param' and kind in ('param_decl', 'meth', 'class',
                                            'inst', 'prop'):
        # declaration form carries no value
        c = c[:7] + (None,) + c[8:]
    return tuple(_apply_loss(kind, x) for x in c)


def _oracle_value(ctx, recipe):
    "bare typed values through module-level tocimxml()"
    v = S.build_value(recipe['type'], recipe['value'])
    if v is None:
        return
    t = recipe['type']
    try:
        xml = pywbem.tocimxml(v).toxml()
    except TypeError:
        return
    r = _parse(xml)
    # VALUE -> str, VALUE.ARRAY -> list of str/None, VALUE.REFERENCE -> path
    tp = TupleParser()
    if t == 'reference':
        got = r
    elif isinstance(r, list):
        got = [tp.unpack_single_value(x, t) if x is not None or t == 'string'
               else None for x in r]
    else:
        got = tp.unpack_single_value(r, t)
    o = Opts()
    ce = _charstr(vcanon(v, o, key=(t == 'reference')))
    cg = _charstr(vcanon(got, o, key=(t == 'reference')))
    if ce != cg:
        ctx.fail(_sig('value-roundtrip:', _classify_diff('value', recipe, ce,
                                                          cg)),
                 '%s\nXML: %s' % (diff_path(ce, cg), xml[:800]))


def _charstr(c):
    "char16 values come back as plain str from unpack_single_value"
    if isinstance(c, tuple):
        if len(c) == 2 and c[0] == 'char16':
            return ('string', c[1])
        return tuple(_charstr(x) for x in c)
    return c


def _oracle_paramvalue(ctx, recipe):
    """
    PARAMVALUE: parse_paramvalue returns (name, paramtype, raw child); the
    typed conversion belongs to the operation layer (checked in C04).  Here:
    name, PARAMTYPE, and the raw child carry exactly the original.
    """
    p = S.build(recipe)
    xml = p.tocimxml(as_value=True).toxml()
    try:
        name, ptype, child = _parse(xml)
    except pywbem.Error as exc:
        ctx.fail('own-xml-rejected:' + _msg_key(exc),
                 '%s\nXML: %s' % (exc, xml[:1500]))
        return
    if name != p.name or ptype != p.type:
        ctx.fail('paramvalue:name-or-type', repr((name, ptype, p)))
        return
    v = p.value
    if v is None:
        exp = None
    elif p.type == 'reference':
        exp = canon(v, Opts())
        child = canon(child, Opts())
    elif isinstance(v, list):
        exp = [None if x is None else atomic_to_cim_xml(x) for x in v]
    else:
        exp = atomic_to_cim_xml(v)
    if exp != child:
        ctx.fail(_sig('paramvalue:', _classify_diff(
            'param_value', recipe,
            tuple(exp) if isinstance(exp, list) else exp,
            tuple(child) if isinstance(child, list) else child)),
            'expected %r got %r\nXML: %s' % (exp, child, xml[:800]))
        return
    # the text of each value converts back to the typed value
    if p.type != 'reference' and v is not None:
        tp = TupleParser()
        items = child if isinstance(child, list) else [child]
        orig = v if isinstance(v, list) else [v]
        for c, ov in zip(items, orig):
            if c is None:
                continue
            got = tp.unpack_single_value(c, p.type)
            if _charstr(vcanon(got)) != _charstr(vcanon(ov)):
                ctx.fail('paramvalue:typed-value',
                         '%r -> %r -> %r' % (ov, c, got))
                return


SUBCHECKS = [
    Sub('roundtrip', strategy=strategy, oracle=oracle,
        quick=(16, 700), thorough=(16, 30000)),
]
