"""
C14 - Pull enumeration sessions deliver each object exactly once, within
limits.  DESIGN.md 4.14.

History check on one FakedWBEMConnection: a generated repository (result set
sizes 0..25, optionally one class with 100/101/230 instances to cross
DEFAULT_MAX_OBJECT_COUNT) and a sequence of open / pull / close / bogus-context
/ repository-mutation / namespace-removal / fault steps over several
interleaved enumeration sessions.  Per session the model holds the result of
the corresponding traditional operation made right before the Open call and
the objects delivered so far.

Fault steps are operations in the middle of the sessions that the server
refuses (remove_namespace of a namespace that still holds objects, of a
missing one, of the Interop namespace; add_namespace of an existing one;
CreateInstance / DeleteInstance / ModifyInstance / CreateClass / DeleteClass /
DeleteQualifier that fail; a Pull, CloseEnumeration or Open while the server
has pull operations switched off) or that have nothing to do with the sessions
(another namespace added and removed again).  None of them is eos or
CloseEnumeration, so every open session must still be there afterwards with
the same undelivered objects, and is pulled / drained further as usual.
"""

from collections import Counter

from hypothesis import strategies as st

import pywbem
import pywbem_mock
from pywbem import (CIMInstanceName, CIMInstance, CIMClass, CIMProperty,
                    CIMQualifier, CIMQualifierDeclaration, CIMError, Uint32,
                    CIM_ERR_INVALID_ENUMERATION_CONTEXT)

from .runner import Sub, HarnessError, exc_detail, _pkg_dirs
from . import strategies as S
from .normalize import canon, Opts

PROPERTY = 'C14'
RULE = (
    "A history = repository recipe (C14_Base <- C14_Mid <- C14_Leaf forest, "
    "C14_Other, association C14_Link with a hub instance on each side, "
    "optional C14_Big with 100/101/230 instances in namespace root/big, "
    "class C14_X in a removable namespace root/extra; every other instance "
    "count drawn from 0..25) + up to N "
    "steps.  Steps: open (7 Open operations; targets = every class / hub "
    "and ordinary instances / a non-existing one; DeepInheritance, "
    "IncludeClassOrigin, PropertyList, Role/ResultClass filters, "
    "OperationTimeout, ContinueOnError; MaxObjectCount in None, 0, 1, k, "
    "size-1, size, size+1, huge; int or Uint32), pull (any session, open or "
    "finished; count in 0, 1, k, remaining-1, remaining, remaining+1, "
    "2**32-1; right or wrong Pull kind), close (open or finished session), "
    "pull/close with a fabricated context or one of another connection, "
    "create/modify/delete of instances while sessions are open, removal of "
    "the second namespace while a session on it is open, fault = an "
    "operation that is refused or unrelated while sessions are open "
    "(remove_namespace of a non-empty namespace - mostly the one of an open "
    "session -, of a missing one or of the Interop namespace that 3 of 10 "
    "recipes have; add_namespace of an existing namespace or of a second "
    "Interop namespace; namespace names also in upper / title case and with "
    "leading / trailing slashes; add + remove of a fresh namespace; "
    "CreateInstance of an existing instance, DeleteInstance / ModifyInstance "
    "of a missing one, CreateClass of an existing class, DeleteClass of a "
    "missing one, DeleteQualifier of a used one; Pull / CloseEnumeration / "
    "Open with disable_pull_operations=True for that one call); after a "
    "fault step and after a pull/close with an unknown context every open "
    "session must still be known to the server with the same number of "
    "undelivered objects.  At the end every "
    "open session is drained with positive counts or closed, finished "
    "contexts are re-tried, and the server's context table must be empty.  "
    "Expected objects of a session = result of the corresponding "
    "traditional operation (EnumerateInstances, EnumerateInstanceNames, "
    "Associators, AssociatorNames, References, ReferenceNames, ExecQuery) "
    "with the same arguments made immediately before the Open call, "
    "compared as multisets of canonical forms (host ignored).  "
    "Non-trivial history = some session got >= 2 pulls, or a pull with "
    "MaxObjectCount=0 was made on an open session, or two sessions were "
    "open at the same time.  Distinct = distinct history.")
ASSUMPTIONS = [
    "MaxObjectCount=None is passed only to Open operations (the Pull "
    "docstrings say None is not allowed); no limit is asserted for None",
    "FilterQuery/FilterQueryLanguage are not used with the six non-query "
    "Open operations (the traditional operations have no filter) and "
    "ContinueOnError=True is not used (servers may refuse it)",
    "order of delivery is not compared (the statement says nothing lost, "
    "nothing twice); only the multiset of canonical objects",
    "the host component of instance paths is not compared (the Open/Pull "
    "docstrings promise a host, the Enumerate docstrings do not)",
    "objects whose instance was created, modified or deleted while a "
    "session was open are excluded from that session's comparison "
    "(DSP0200 does not prescribe snapshot semantics)",
    "after removal of its namespace a session may be continued or refused "
    "with any CIMError; it must still not deliver an object twice and its "
    "context must be gone after CloseEnumeration",
    "an Open call may be refused when OperationTimeout exceeds "
    "pywbem_mock.config.OPEN_MAX_TIMEOUT; otherwise an Open whose "
    "traditional counterpart succeeds must succeed",
    "a final pull that delivers nothing but reports eos is legal (the "
    "statement only demands progress or eos), so eos is not required at "
    "the earliest possible response",
    "sub-check query_stub replaces MainProvider.ExecQuery (unimplemented "
    "in the mock) by a stub returning the instances of the FROM class, "
    "exactly like pywbem's own test_openqueryinstances does with "
    "Mock(return_value=...); without it OpenQueryInstances can never open "
    "a session",
    "the server's context table is read through "
    "conn._mainprovider.enumeration_contexts (its keys; the length of "
    "'data' only to name the cause when a refused pull consumed objects)",
    "fault steps: the operations are the ones whose docstrings promise a "
    "CIMError for the given situation (remove_namespace: 'must be empty', "
    "CIM_ERR_NAMESPACE_NOT_EMPTY / CIM_ERR_NOT_FOUND / "
    "CIM_ERR_INVALID_NAMESPACE; add_namespace: CIM_ERR_ALREADY_EXISTS; "
    "disable_pull_operations: 'all pull operations requests may be "
    "forbidden'); the status code is not asserted (only counted as a "
    "class), and a call that is accepted instead ends the history without "
    "a finding (class fault:not-refused) because the repository model is "
    "void then and the refusal itself is not part of this property; a "
    "Pull/Close that is served although pull operations are disabled is "
    "followed like a normal one",
    "a refused operation and the add+remove of another namespace are "
    "neither eos nor CloseEnumeration, so they must not end or shorten an "
    "open session; this is read from the server's context table right "
    "after the step (to name the operation at fault; through the public "
    "interface the same shows later as a refused pull on an open session "
    "or eos while objects remain).  Sessions whose namespace was really "
    "removed are exempt",
    "namespace names are case insensitive and leading/trailing slashes "
    "are ignored (docstrings of add_namespace/remove_namespace), so the "
    "spelled variants name the same namespace",
    "C14_Big lives in its own namespace root/big (the mock copies the "
    "whole instance store of a namespace on every enumeration); a "
    "traditional result is reused for an identical later Open call as long "
    "as no step changed the repository",
]
SENSITIVITY = [
    "_pull_response: rtn_objs_list = objs_list[0:max_obj_cnt + 1] -> "
    "pull:more-objects-than-MaxObjectCount, object-delivered-twice",
    "_pull_response: context not deleted on eos -> "
    "leak:context-left-on-server-after:eos",
    "_pull_response: wrong pull type deletes an object before raising -> "
    "wrong-kind-pull:refused-but-consumed-objects",
    "CloseEnumeration not deleting the context -> "
    "leak:context-left-on-server-after:closed",
    "_pull_response: del objs_list[0:max_obj_cnt + 1] (one object lost per "
    "pull) -> eos-while-objects-remain",
    "_open_response: first batch not removed from the stored list -> "
    "object-delivered-twice",
    "_open_response: 'if not max_obj_cnt' (MaxObjectCount=0 treated as "
    "default) -> open:MaxObjectCount=0-delivers-objects",
    "_pull_response: pull type check disabled -> wrong-kind-pull:accepted",
    "_create_contextid returning a constant (sessions share one context) -> "
    "delivered-object-not-in-traditional-result, "
    "close:refused-on-open-session:CIM_ERR_INVALID_ENUMERATION_CONTEXT",
    "client _get_rslt_params returning the context also with eos -> "
    "open:context-returned-with-eos, pull:context-returned-with-eos",
    "_pull_response: eos one object early (len <= max+1, slice to max) -> "
    "eos-while-objects-remain",
    "_pull_response: slice/del [0:max_obj_cnt - 1] -> "
    "pull:no-object-and-no-eos-for-positive-MaxObjectCount, "
    "drain:session-does-not-terminate",
    "(unchanged tree) _pull_response 'if not max_obj_cnt' -> "
    "pull:MaxObjectCount=0-delivers-objects; OpenQueryInstances registering "
    "'PullInstancesWithPath' -> query-session:server-refuses-PullInstances-"
    "and-accepts-PullInstancesWithPath; '{0!A }' in _validate_open_params "
    "-> open:leak:ValueError@_mainprovider:_validate_open_params:...",
    "FakedWBEMConnection.remove_namespace deleting the contexts of the "
    "namespace before MainProvider.remove_namespace refuses the removal -> "
    "session-disturbed-by:remove_namespace-refused:context-lost",
    "CloseEnumeration: _validate_pull_operations_enabled only after the "
    "context was deleted -> session-disturbed-by:CloseEnumeration-while-"
    "pull-operations-disabled:context-lost",
    "PullInstancePaths: _pull_response before "
    "_validate_pull_operations_enabled -> session-disturbed-by:Pull-while-"
    "pull-operations-disabled:objects-consumed, ...:context-lost",
    "FakedWBEMConnection.add_namespace clearing enumeration_contexts -> "
    "session-disturbed-by:add_namespace-refused:context-lost, "
    "session-disturbed-by:add+remove_namespace-of-another-namespace:"
    "context-lost, session-disturbed-by:add_namespace:context-lost",
    "NOT caught, by design: _open_response '<' instead of '<=' only delays "
    "eos to a final empty pull, which the statement allows",
]

NS = 'root/cimv2'
NSX = 'root/extra'
# C14_Big has its own namespace: the mock copies the whole instance store of
# a namespace on every enumeration
NSB = 'root/big'
NSI = 'interop'
NS_OF = {'C14_X': NSX, 'C14_Big': NSB}
OPTS = Opts(host=False)
IEC = CIM_ERR_INVALID_ENUMERATION_CONTEXT
QUERY_KIND_SIG = ('query-session:server-refuses-PullInstances-and-accepts-'
                  'PullInstancesWithPath')

OPENS = ['OpenEnumerateInstances', 'OpenEnumerateInstancePaths',
         'OpenAssociatorInstances', 'OpenAssociatorInstancePaths',
         'OpenReferenceInstances', 'OpenReferenceInstancePaths',
         'OpenQueryInstances']
TRADITIONAL = {
    'OpenEnumerateInstances': 'EnumerateInstances',
    'OpenEnumerateInstancePaths': 'EnumerateInstanceNames',
    'OpenAssociatorInstances': 'Associators',
    'OpenAssociatorInstancePaths': 'AssociatorNames',
    'OpenReferenceInstances': 'References',
    'OpenReferenceInstancePaths': 'ReferenceNames',
    'OpenQueryInstances': 'ExecQuery',
}
# documented Pull operation per Open operation
KIND = {
    'OpenEnumerateInstances': 'insts', 'OpenAssociatorInstances': 'insts',
    'OpenReferenceInstances': 'insts',
    'OpenEnumerateInstancePaths': 'paths',
    'OpenAssociatorInstancePaths': 'paths',
    'OpenReferenceInstancePaths': 'paths',
    'OpenQueryInstances': 'query',
}
PULL = {'insts': 'PullInstancesWithPath', 'paths': 'PullInstancePaths',
        'query': 'PullInstances'}
WRONG = {'insts': ['paths', 'query'], 'paths': ['insts', 'query'],
         'query': ['paths', 'insts']}
# arguments that only the Open operation has
OPEN_ONLY = ('MaxObjectCount', 'OperationTimeout', 'ContinueOnError')

CLASSNAMES = ['C14_Base', 'C14_Mid', 'C14_Leaf', 'C14_Other', 'C14_Link',
              'C14_Big']


# ---------------------------------------------------------------------------
# repository

def _key():
    return [CIMQualifier('Key', True)]


def _qualdecls(assoc=True):
    out = [CIMQualifierDeclaration(
        'Key', 'boolean', value=False, overridable=False, tosubclass=True,
        scopes={'PROPERTY': True, 'REFERENCE': True})]
    if assoc:
        out.append(CIMQualifierDeclaration(
            'Association', 'boolean', value=False, overridable=False,
            tosubclass=True, scopes={'ASSOCIATION': True}))
    return out


def _classes():
    base = CIMClass('C14_Base', properties=[
        CIMProperty('Id', None, type='uint32', qualifiers=_key()),
        CIMProperty('Name', None, type='string'),
        CIMProperty('Arr', None, type='uint8', is_array=True)])
    mid = CIMClass('C14_Mid', superclass='C14_Base', properties=[
        CIMProperty('M', None, type='string')])
    leaf = CIMClass('C14_Leaf', superclass='C14_Mid', properties=[
        CIMProperty('L', None, type='sint64')])
    other = CIMClass('C14_Other', properties=[
        CIMProperty('K', None, type='string', qualifiers=_key()),
        CIMProperty('When', None, type='datetime')])
    link = CIMClass('C14_Link', qualifiers=[CIMQualifier('Association',
                                                         True)],
                    properties=[
        CIMProperty('Src', None, type='reference',
                    reference_class='C14_Base', qualifiers=_key()),
        CIMProperty('Dst', None, type='reference',
                    reference_class='C14_Other', qualifiers=_key()),
        CIMProperty('Note', None, type='string')])
    big = CIMClass('C14_Big', properties=[
        CIMProperty('Id', None, type='uint32', qualifiers=_key()),
        CIMProperty('Txt', None, type='string')])
    return [base, mid, leaf, other, link], big


def _xclass():
    return CIMClass('C14_X', properties=[
        CIMProperty('Id', None, type='uint32', qualifiers=_key()),
        CIMProperty('Txt', None, type='string')])


def _ipath(cls, keyname, value, ns=NS):
    return CIMInstanceName(cls, keybindings=[(keyname, value)], namespace=ns)


def _base_inst(cls, i, extra=()):
    props = [CIMProperty('Id', Uint32(i)),
             CIMProperty('Name', '%s <%d> & "x"' % (cls, i))]
    if i % 2 == 0:
        props.append(CIMProperty('Arr', [pywbem.Uint8(i % 250), None],
                                 type='uint8', is_array=True))
    props.extend(extra)
    return CIMInstance(cls, properties=props)


def build_repo(init, stub_query=False):
    """
    FakedWBEMConnection for the recipe; returns (conn, paths) where paths is
    the list of the created non-association instance paths per class.
    """
    conn = pywbem_mock.FakedWBEMConnection(default_namespace=NS)
    conn.add_cimobjects(_qualdecls(), namespace=NS)
    classes, big = _classes()
    for c in classes:
        conn.CreateClass(c, namespace=NS)
    conn.add_namespace(NSB)
    conn.add_cimobjects(_qualdecls(assoc=False), namespace=NSB)
    conn.CreateClass(big, namespace=NSB)
    conn.add_namespace(NSX)
    conn.add_cimobjects(_qualdecls(assoc=False), namespace=NSX)
    conn.CreateClass(_xclass(), namespace=NSX)
    paths = {'C14_Base': [], 'C14_Mid': [], 'C14_Leaf': [], 'C14_Other': [],
             'C14_Big': [], 'C14_X': [], 'C14_Link': []}
    for i in range(init['nbase']):
        paths['C14_Base'].append(conn.CreateInstance(
            _base_inst('C14_Base', i)))
    for i in range(init['nmid']):
        paths['C14_Mid'].append(conn.CreateInstance(_base_inst(
            'C14_Mid', 100 + i, [CIMProperty('M', 'm%d' % i)])))
    for i in range(init['nleaf']):
        paths['C14_Leaf'].append(conn.CreateInstance(_base_inst(
            'C14_Leaf', 200 + i, [CIMProperty('M', None, type='string'),
                                  CIMProperty('L', pywbem.Sint64(-i))])))
    for i in range(init['nother']):
        paths['C14_Other'].append(conn.CreateInstance(CIMInstance(
            'C14_Other', properties=[
                CIMProperty('K', 'o%d' % i),
                CIMProperty('When', pywbem.CIMDateTime(
                    '2024010%d120000.000000+000' % (1 + i % 9)))])))
    for i in range(init['nbig']):
        paths['C14_Big'].append(conn.CreateInstance(CIMInstance(
            'C14_Big', properties=[CIMProperty('Id', Uint32(i)),
                                   CIMProperty('Txt', 't%d' % i)]),
            namespace=NSB))
    for i in range(init['nx']):
        paths['C14_X'].append(conn.CreateInstance(CIMInstance(
            'C14_X', properties=[CIMProperty('Id', Uint32(i)),
                                 CIMProperty('Txt', 'x%d' % i)]),
            namespace=NSX))
    # hub on the Base side: Base[0] -> Other[0..hub)
    sources = paths['C14_Base'] + paths['C14_Mid'] + paths['C14_Leaf']
    done = set()
    links = []
    if sources:
        for j in range(min(init['hub'], len(paths['C14_Other']))):
            links.append((0, j))
    # hub on the Other side: sources[1..rev] -> Other[0]
    if paths['C14_Other']:
        for i in range(1, min(init['rev'] + 1, len(sources))):
            links.append((i, 0))
    for i, j in init['links']:
        if sources and paths['C14_Other']:
            links.append((i % len(sources), j % len(paths['C14_Other'])))
    for i, j in links:
        if (i, j) in done:
            continue
        done.add((i, j))
        paths['C14_Link'].append(conn.CreateInstance(CIMInstance(
            'C14_Link', properties=[
                CIMProperty('Src', sources[i], reference_class='C14_Base'),
                CIMProperty('Dst', paths['C14_Other'][j],
                            reference_class='C14_Other'),
                CIMProperty('Note', 'l%d-%d' % (i, j))])))
    if init.get('interop'):
        # an (empty) Interop namespace: it can never be removed, and with it
        # add_namespace() first tries the namespace provider route
        conn.add_namespace(NSI)
    if stub_query:
        install_query_stub(conn)
    return conn, paths


def install_query_stub(conn):
    """
    The mock's ExecQuery is not implemented.  Like pywbem's own
    test_openqueryinstances, give the main provider an ExecQuery so that
    OpenQueryInstances can open a session: 'SELECT * FROM <class>' returns
    the instances of <class> and its subclasses.
    """
    mp = conn._mainprovider  # pylint: disable=protected-access

    def exec_query(namespace, QueryLanguage, Query):
        classname = Query.split(' FROM ')[1].split()[0]
        return mp.EnumerateInstances(namespace, classname,
                                     DeepInheritance=True)
    mp.ExecQuery = exec_query


# ---------------------------------------------------------------------------
# generators (plain data)

# Hypothesis favours the ends of an integer range; rotate them away from 0 so
# that empty result sets stay the exception (they are also reached through
# filters, empty classes and non-existing targets)
_SIZE = st.one_of(st.integers(0, 25).map(lambda v: (v + 7) % 26),
                  st.integers(0, 8).map(lambda v: (v + 3) % 9))


def g_init(draw, stub_query=False):
    nbig = draw(st.sampled_from([0] * 12 + [100, 101, 230]))
    return {'nbase': draw(_SIZE), 'nmid': draw(st.integers(0, 8)),
            'nleaf': draw(st.integers(0, 5)), 'nother': draw(_SIZE),
            'nbig': nbig, 'nx': draw(st.integers(0, 6)),
            'hub': draw(_SIZE), 'rev': draw(_SIZE),
            'links': [(draw(S._I100), draw(S._I100))
                      for _ in range(draw(st.integers(0, 4)))],
            'drain': draw(st.integers(0, 2 ** 16)),
            'interop': draw(S._I10) < 3,
            'stub_query': stub_query}


_MOC_OPEN = [None, 0, 0, 0, 0, 1, 1, 1, 2, 2, 3, 5, 7, ('size', -1),
             ('size', 0), ('size', 1), 100, 2 ** 32 - 1]
_MOC_PULL = [0, 0, 0, 1, 1, 1, 1, 2, 2, 2, 3, 3, 5, 7, ('rem', -1),
             ('rem', 0), ('rem', 1), 100, 2 ** 32 - 1]
_PLISTS = [None, None, None, [], ['Name'], ['name', 'M'], 'Name',
           ['K', 'Note'], ['Nope']]
_TRI = [None, None, True, False]


def g_open(draw, m):
    which = OPENS[draw(st.sampled_from(
        [6] if m.stub_query and draw(S._I10) < 4 else
        [0, 0, 0, 0, 1, 1, 1, 1, 2, 2, 2, 3, 3, 3, 4, 4, 4, 5, 5, 5, 6]))]
    a = {}
    if which.startswith('OpenEnumerate'):
        k = draw(S._I100)
        if m.nbig and k < 25:
            cn = 'C14_Big'
        elif k < 40:
            cn = 'C14_Base'
        elif k < 52:
            cn = 'C14_Other'
        elif k < 60:
            cn = 'C14_Link'
        elif k < 78:
            cn = CLASSNAMES[k % 6]
        elif k < 81:
            cn = 'c14_BASE'
        elif k < 98 and not m.nsx_removed:
            cn = 'C14_X'
        else:
            cn = 'C14_Nope'
        a['ClassName'] = cn
        a['namespace'] = NS_OF[cn] if cn in NS_OF else \
            draw(st.sampled_from([None, NS]))
        if draw(S._I100) == 57:
            a['namespace'] = 'root/nope'
    elif which == 'OpenQueryInstances':
        cn = draw(st.sampled_from(['C14_Base', 'C14_Base', 'C14_Other',
                                   'C14_Mid', 'C14_Big', 'C14_X']))
        a['FilterQueryLanguage'] = draw(st.sampled_from(
            ['DMTF:FQL', 'DMTF:FQL', 'DMTF:FQL', 'WQL', 'DMTF:CQL']))
        a['FilterQuery'] = 'SELECT * FROM ' + cn
        a['namespace'] = NS_OF[cn] if cn in NS_OF else \
            draw(st.sampled_from([None, NS]))
        a['ReturnQueryResultClass'] = draw(st.sampled_from(_TRI))
    else:
        k = draw(S._I100)
        if k < 42:
            tgt = ('src', 0)                    # hub on the Base side
        elif k < 80:
            tgt = ('C14_Other', 0)              # hub on the Other side
        elif k < 88:
            tgt = ('src', draw(S._I100))
        elif k < 96:
            tgt = ('C14_Other', draw(S._I100))
        else:
            tgt = ('none', 0)
        a['InstanceName'] = tgt
        # filters (they mostly make the result small or empty)
        filt = 40 <= draw(S._I100) < 55
        a['ResultClass'] = draw(st.sampled_from(
            [None, 'C14_Link', 'C14_Other', 'C14_Base', 'C14_Mid'])) \
            if filt else None
        a['Role'] = draw(st.sampled_from([None, None, 'Src', 'Dst', 'src'])) \
            if filt else None
        if 'Associator' in which:
            a['AssocClass'] = draw(st.sampled_from([None, None, None,
                                                    'C14_Link']))
            a['ResultRole'] = draw(st.sampled_from(
                [None, None, 'Src', 'Dst'])) if filt else None
    if which.endswith('Instances') and which != 'OpenQueryInstances':
        a['IncludeClassOrigin'] = draw(st.sampled_from(_TRI))
        a['PropertyList'] = draw(st.sampled_from(_PLISTS))
        if which == 'OpenEnumerateInstances':
            a['DeepInheritance'] = draw(st.sampled_from(_TRI))
    a['OperationTimeout'] = draw(st.sampled_from(
        [None, None, None, None, None, None, 0, 1, 30, 40]))
    if draw(S._I100) == 57:
        a['OperationTimeout'] = 41       # > OPEN_MAX_TIMEOUT: may be refused
    a['ContinueOnError'] = draw(st.sampled_from([None, None, False]))
    a['MaxObjectCount'] = draw(st.sampled_from(_MOC_OPEN))
    return {'op': 'open', 'which': which, 'args': a,
            'u32': draw(S._I10) < 2}


# spellings of a namespace name that the namespace methods document as
# equivalent (case insensitive, leading/trailing slashes ignored)
_SPELL = [lambda n: n, lambda n: n, lambda n: n, lambda n: n.upper(),
          lambda n: '/' + n, lambda n: n + '/',
          lambda n: '//' + n.title() + '//']
_FAULT_KINDS = (['rmns'] * 8 + ['rmns-other'] * 2 + ['addns'] * 2 +
                ['tmpns'] * 2 + ['inst'] * 3 + ['class'] * 2 +
                ['disabled'] * 4)


def g_fault(draw, m):
    """
    An operation in the middle of the history that is refused by the server
    (or that has no lasting effect) and therefore must leave every open
    enumeration session as it is.
    """
    kind = draw(st.sampled_from(_FAULT_KINDS))
    step = {'op': 'fault', 'kind': kind}
    spell = _SPELL[draw(st.integers(0, len(_SPELL) - 1))]
    if kind == 'rmns':
        # a namespace that still contains objects; mostly the one of an open
        # session
        live = [s.ns for s in m.open_sessions() if not s.orphan]
        step['ns'] = spell(draw(st.sampled_from(
            live + live + [NS, NSB, NSX])))
    elif kind == 'rmns-other':
        # not existing / the Interop namespace (if the recipe has one)
        step['ns'] = spell(draw(st.sampled_from(
            ['root/nope', 'interop', 'interop'])))
    elif kind == 'addns':
        # an existing one, or a second Interop namespace (which is added if
        # the repository has none yet)
        step['ns'] = spell(draw(st.sampled_from(
            [NS, NSB, 'root/interop'] + ([] if m.nsx_removed else [NSX]))))
    elif kind == 'tmpns':
        step['spell'] = draw(st.integers(0, len(_SPELL) - 1))
    elif kind == 'inst':
        step['what'] = draw(st.sampled_from(
            ['create-existing', 'delete-missing', 'modify-missing']))
        step['cls'] = draw(st.sampled_from(
            ['C14_Base', 'C14_Other', 'C14_Mid', 'C14_Big', 'C14_X']))
        step['i'] = draw(S._I100)
    elif kind == 'class':
        step['what'] = draw(st.sampled_from(
            ['create-existing', 'delete-missing', 'delete-qualifier-in-use']))
        step['ns'] = draw(st.sampled_from([NS, NSB, NSX]))
    else:
        step['action'] = draw(st.sampled_from(
            ['pull', 'pull', 'pull', 'close', 'close', 'open']))
        step['s'] = draw(S._I100)
        step['count'] = draw(st.sampled_from(_MOC_PULL))
    return step


def g_step(draw, m):
    nopen = len(m.open_sessions())
    nall = len(m.sessions)
    k = draw(S._I100)
    if nall == 0 or k < (75 if nopen == 0 else 18 if nopen == 1 else 8):
        return g_open(draw, m)
    r = draw(S._I100)
    if r < 60:
        wrong = draw(S._I100)
        return {'op': 'pull', 's': draw(S._I100),
                'pick': 'open' if draw(S._I10) < 9 else 'any',
                'count': draw(st.sampled_from(_MOC_PULL)),
                'wrong': 0 if wrong < 88 else 1 if wrong < 94 else 2,
                'u32': draw(S._I10) < 2}
    if r < 65:
        return {'op': 'close', 's': draw(S._I100),
                'pick': 'open' if draw(S._I10) < 7 else 'any'}
    if r < 80:
        if r >= 71:
            return g_fault(draw, m)
        return {'op': 'bogus',
                'what': draw(st.sampled_from(['fabricated', 'empty',
                                              'foreign', 'foreign'])),
                'action': draw(st.sampled_from(['insts', 'paths', 'query',
                                                'close'])),
                'count': draw(st.sampled_from([0, 1, 5, 1000]))}
    nsx_session = any(s.ns == NSX for s in m.open_sessions())
    if not m.nsx_removed and r < (91 if nsx_session else 81):
        return {'op': 'remove_ns'}
    return {'op': 'mutate',
            'what': draw(st.sampled_from(['delete', 'delete', 'create',
                                          'modify'])),
            'cls': draw(st.sampled_from(['C14_Base', 'C14_Base',
                                         'C14_Other', 'C14_Mid',
                                         'C14_Link', 'C14_Big',
                                         'C14_X'])),
            'i': draw(S._I100)}


def _leak_signature(exc):
    """
    type + innermost pywbem frame that is not the generic message formatter
    (pywbem/_utils.py), so that the signature names the operation code that
    is at fault; no pywbem frame at all = harness error
    """
    import os
    import re
    import traceback
    inner = None
    for fr in traceback.extract_tb(exc.__traceback__):
        fn = os.path.realpath(fr.filename)
        if fn.startswith(_pkg_dirs()) and \
                os.path.basename(fn) != '_utils.py':
            inner = fr
    if inner is None:
        raise HarnessError('exception without pywbem frame: %r' %
                           (exc,)) from exc
    return '%s@%s:%s:%s' % (
        type(exc).__name__, os.path.basename(inner.filename)[:-3], inner.name,
        re.sub(r'\s+', '', (inner.line or ''))[:40])


# ---------------------------------------------------------------------------
# model

class Session:
    def __init__(self, which, ns, expected, step):
        self.which = which
        self.kind = KIND[which]
        self.pull_kind = self.kind    # what the server accepts (see _pull)
        self.ns = ns
        self.expected = expected      # list of canonical forms
        self.delivered = []
        self.ctx = None               # current / last context tuple
        self.state = 'open'           # open | eos | closed
        self.pulls = 0
        self.refused = 0              # refused wrong-kind pulls
        self.dirty = set()            # canonical paths touched meanwhile
        self.orphan = False           # namespace removed
        self.step = step
        self.zero_pulls = 0
        self.reported = set()
        self.peek_ok = True
        self.faults = 0               # fault steps survived while open
        self.ns_faults = 0            # ... refused removals of its namespace

    @property
    def ctx_id(self):
        return None if self.ctx is None else self.ctx[0]


def _cpath(c):
    "canonical path of a canonical object"
    return c[2] if c[0] == 'inst' else c


def _objs(result):
    objs = getattr(result, 'instances', None)
    if objs is None:
        objs = result.paths
    return objs


class Machine:
    STUB_QUERY = False

    def __init__(self, ctx):
        self.ctx = ctx
        self.conn = None
        self.foreign = None
        self.foreign_ctx = None
        self.sessions = []
        self.paths = None
        self.stub_query = self.STUB_QUERY
        self.nbig = 0
        self.new_id = 5000
        self.nsx_removed = False
        self.interop = False
        self.tmp_id = 0
        self.max_open = 0
        self.classes = set()
        # traditional results; cleared whenever the repository is changed
        self.trad_cache = {}

    # ---- generation ------------------------------------------------------

    def init_strategy(self):
        stub = self.STUB_QUERY

        @st.composite
        def strat(draw):
            return g_init(draw, stub)
        return strat()

    def step_strategy(self):
        m = self

        @st.composite
        def strat(draw):
            return g_step(draw, m)
        return strat()

    def open_sessions(self):
        return [s for s in self.sessions if s.state == 'open']

    # ---- setup -----------------------------------------------------------

    def setup(self, init):
        self.init = init
        self.stub_query = init.get('stub_query', False)
        self.nbig = init['nbig']
        self.interop = bool(init.get('interop'))
        self.conn, self.paths = build_repo(init, self.stub_query)

    @property
    def server_contexts(self):
        # pylint: disable=protected-access
        return self.conn._mainprovider.enumeration_contexts

    # ---- helpers ---------------------------------------------------------

    def fail(self, sig, detail):
        self.ctx.fail(sig, detail)

    def _target(self, tgt):
        kind, i = tgt
        if kind == 'src':
            src = self.paths['C14_Base'] + self.paths['C14_Mid'] + \
                self.paths['C14_Leaf']
            if src:
                return src[i % len(src)].copy()
        elif kind == 'C14_Other' and self.paths['C14_Other']:
            lst = self.paths['C14_Other']
            return lst[i % len(lst)].copy()
        return _ipath('C14_Base', 'Id', Uint32(99999))

    def _pick(self, step):
        cands = self.open_sessions() if step['pick'] == 'open' else []
        if not cands:
            # sessions that were complete at open time have no context
            cands = [s for s in self.sessions if s.ctx is not None]
        if not cands:
            return None
        return cands[step['s'] % len(cands)]

    def _check_server_table(self, where):
        """
        no enumeration context stays open on the server: the server's table
        holds exactly the contexts of the sessions that are open
        """
        have = set(self.server_contexts)
        want = set()
        for s in self.sessions:
            if s.state == 'open' and s.ctx_id is not None:
                if s.orphan and s.ctx_id not in have:
                    continue
                want.add(s.ctx_id)
        extra = have - want
        missing = want - have
        if extra:
            states = sorted(set(s.state for s in self.sessions
                                if s.ctx_id in extra)) or ['unknown']
            self.fail('leak:context-left-on-server-after:' + '+'.join(states),
                      '%s: server holds %d context(s) that no open session '
                      'owns: %r' % (where, len(extra), sorted(extra)))
            # do not report the same leak again on every step
            for cid in extra:
                del self.server_contexts[cid]
        if missing:
            self.fail('server-lost-context-of-open-session',
                      '%s: %r' % (where, sorted(missing)))

    # ---- response oracle -------------------------------------------------

    def _response(self, s, result, moc, op):
        """
        Clauses about one successful Open/Pull response of session s.
        op: 'open' | 'pull'
        """
        objs = _objs(result)
        n = len(objs)
        cls = self.classes
        # type of the delivered objects
        want_t = CIMInstanceName if s.kind == 'paths' else CIMInstance
        for o in objs:
            if not isinstance(o, want_t):
                self.fail('%s:delivers-wrong-object-type' % op,
                          '%s delivered %s' % (s.which, type(o).__name__))
                return False
        # limit
        if moc is not None and n > moc:
            if moc == 0:
                self.fail('%s:MaxObjectCount=0-delivers-objects' % op,
                          '%s session, %s with MaxObjectCount=0 delivered %d '
                          'objects' % (s.which, op, n))
            else:
                self.fail('%s:more-objects-than-MaxObjectCount' % op,
                          '%s session, %s with MaxObjectCount=%d delivered '
                          '%d objects' % (s.which, op, moc, n))
        # progress
        if op == 'pull' and moc is not None and moc > 0 and n == 0 and \
                not result.eos:
            self.fail('pull:no-object-and-no-eos-for-positive-MaxObjectCount',
                      '%s session, pull with MaxObjectCount=%d' %
                      (s.which, moc))
        # exactly once
        s.delivered.extend(canon(o, OPTS) for o in objs)
        self._check_no_surplus(s)
        # eos / context
        if not isinstance(result.eos, bool):
            self.fail('%s:eos-not-bool' % op, repr(result.eos))
        if result.eos:
            cls.add('eos-at-' + op)
            if result.context is not None:
                self.fail('%s:context-returned-with-eos' % op,
                          repr(result.context))
            s.state = 'eos'
            self._check_complete(s)
        else:
            c = result.context
            if not (isinstance(c, tuple) and len(c) == 2 and
                    isinstance(c[0], str) and c[0]):
                self.fail('%s:no-context-without-eos' % op, repr(c))
                s.state = 'eos'
                return False
            if c[1] != s.ns:
                self.fail('%s:context-namespace-differs' % op,
                          '%r, session namespace %r' % (c, s.ns))
            if s.ctx is not None and c[0] != s.ctx[0]:
                cls.add('context-id-changes')
            s.ctx = c
        return True

    def _check_no_surplus(self, s):
        exp = Counter(c for c in s.expected if _cpath(c) not in s.dirty)
        got = Counter(c for c in s.delivered if _cpath(c) not in s.dirty)
        for c, k in got.items():
            if k > exp.get(c, 0):
                exp_paths = Counter(_cpath(x) for x in s.expected)
                if c in exp or k > 1 and _cpath(c) in exp_paths:
                    sig = 'object-delivered-twice'
                elif _cpath(c) in exp_paths:
                    sig = 'delivered-object-differs-from-traditional-result'
                else:
                    sig = 'delivered-object-not-in-traditional-result'
                if sig not in s.reported:
                    s.reported.add(sig)
                    self.fail(sig, '%s session (%d expected, %d delivered '
                              'so far, %d pulls): %r delivered %d times, '
                              'expected %d' %
                              (s.which, len(s.expected), len(s.delivered),
                               s.pulls, c, k, exp.get(c, 0)))
        # a path must not come twice even when its instance was touched
        paths = Counter(_cpath(c) for c in s.delivered)
        exp_paths = Counter(_cpath(c) for c in s.expected)
        for p, k in paths.items():
            if p in s.dirty and k > max(1, exp_paths.get(p, 0)) and \
                    'object-delivered-twice' not in s.reported:
                s.reported.add('object-delivered-twice')
                self.fail('object-delivered-twice',
                          '%s session: path %r delivered %d times' %
                          (s.which, p, k))

    def _check_complete(self, s):
        "eos was reported: everything must have been delivered"
        if s.orphan:
            return
        exp = Counter(c for c in s.expected if _cpath(c) not in s.dirty)
        got = Counter(c for c in s.delivered if _cpath(c) not in s.dirty)
        lost = exp - got
        if lost:
            nlost = sum(lost.values())
            if 'object-delivered-twice' in s.reported or \
                    'delivered-object-differs-from-traditional-result' in \
                    s.reported or 'consumed' in s.reported:
                return      # same root cause already reported
            sig = 'eos-while-objects-remain'
            if s.refused and not s.peek_ok:
                # the server's remaining count was not visible at the time
                sig += ':after-refused-wrong-kind-pull'
            self.fail(sig, '%s session: eos after %d of %d objects (%d '
                      'pulls, %d refused wrong-kind pulls); %d lost, e.g. %r'
                      % (s.which, len(s.delivered), len(s.expected), s.pulls,
                         s.refused, nlost, next(iter(lost))))

    # ---- steps -----------------------------------------------------------

    def apply(self, step):
        op = step['op']
        self.classes = set()
        cont = getattr(self, '_do_' + op)(step)
        self._check_server_table('after ' + op)
        nopen = len(self.open_sessions())
        self.max_open = max(self.max_open, nopen)
        if nopen >= 2:
            self.classes.add('interleaved')
        self.ctx.case(key=('step', step), nontrivial=False,
                      classes=sorted(self.classes))
        return cont

    def _moc(self, spec, base, u32):
        if isinstance(spec, tuple):
            spec = max(0, base + spec[1])
        if spec is not None and u32:
            spec = Uint32(spec)
        return spec

    def _do_open(self, step):
        which = step['which']
        a = dict(step['args'])
        cls = self.classes
        cls.add('open:' + which)
        if 'InstanceName' in a:
            a['InstanceName'] = self._target(a['InstanceName'])
            ns = NS
        else:
            ns = a['namespace'] or NS
        # traditional operation with the same arguments
        targs = {('ObjectName' if k == 'InstanceName' else k): v
                 for k, v in a.items() if k not in OPEN_ONLY}
        if which == 'OpenQueryInstances':
            targs = {'QueryLanguage': a['FilterQueryLanguage'],
                     'Query': a['FilterQuery'], 'namespace': a['namespace']}
        tkey = repr((which, sorted(targs.items(), key=lambda kv: kv[0])))
        try:
            if tkey in self.trad_cache:
                # same call, repository unchanged since: same result
                trad = self.trad_cache[tkey]
            elif which == 'OpenQueryInstances' and self.stub_query:
                # the stubbed server-side ExecQuery is the traditional result
                # (the mock's client-side plumbing of ExecQuery results is
                # documented as untested and not part of this property)
                # pylint: disable=protected-access
                self.conn._mainprovider.validate_namespace(ns)
                trad = self.conn._mainprovider.ExecQuery(
                    ns, a['FilterQueryLanguage'], a['FilterQuery'])
            else:
                trad = getattr(self.conn, TRADITIONAL[which])(**targs)
        except CIMError as exc:
            trad = exc
        if not isinstance(trad, CIMError):
            trad = [canon(o, OPTS) for o in trad] \
                if tkey not in self.trad_cache else trad
            self.trad_cache[tkey] = trad
        size = 0 if isinstance(trad, CIMError) else len(trad)
        moc = self._moc(a['MaxObjectCount'], size, step['u32'])
        a['MaxObjectCount'] = moc
        cls.add('open:moc=' + self._moc_class(moc, size))
        before = set(self.server_contexts)
        try:
            result = getattr(self.conn, which)(**a)
        except CIMError as exc:
            cls.add('open:refused')
            if set(self.server_contexts) != before:
                self.fail('open:refused-but-context-registered',
                          '%s -> %s' % (which, exc))
                for cid in set(self.server_contexts) - before:
                    del self.server_contexts[cid]
            ot = a.get('OperationTimeout')
            if not isinstance(trad, CIMError) and (ot is None or ot <= 40) \
                    and which != 'OpenQueryInstances':
                self.fail('open:refused-while-traditional-operation-succeeds:'
                          '%s:%s' % (which, exc.status_code_name),
                          '%r -> %s; %s returned %d objects' %
                          (step, exc, TRADITIONAL[which], size))
            return True
        except Exception as exc:  # pylint: disable=broad-except
            # an Open call is answered with a result or refused with a
            # CIMError; anything else coming out of pywbem is reported under
            # its own signature (a harness error if no pywbem frame is on
            # the traceback) and the history goes on
            cls.add('open:other-exception')
            self.fail('open:leak:' + _leak_signature(exc), exc_detail(exc))
            for cid in set(self.server_contexts) - before:
                del self.server_contexts[cid]
            return True
        if isinstance(trad, CIMError):
            # nothing to compare with; do not keep the session
            cls.add('open:succeeds-while-traditional-fails')
            if not result.eos:
                self.conn.CloseEnumeration(result.context)
            return True
        if size == 0:
            cls.add('open:empty:' + which)
        cls.add('open:size=' + ('0' if size == 0 else '1' if size == 1 else
                                '2-25' if size <= 25 else
                                '26-100' if size <= 100 else '>100'))
        s = Session(which, ns, list(trad), step)
        self.sessions.append(s)
        self._response(s, result, moc, 'open')
        if s.state == 'open':
            cls.add('open:session-stays-open')
        return True

    @staticmethod
    def _moc_class(moc, size):
        if moc is None:
            return 'None'
        if moc == 0:
            return '0'
        if moc >= size:
            return '>=remaining'
        if moc == 1:
            return '1'
        return 'k'

    def _do_pull(self, step):
        s = self._pick(step)
        cls = self.classes
        if s is None:
            cls.add('pull:skipped')
            return True
        if s.ctx is None:
            # session that was complete at open time: there is no context
            cls.add('pull:skipped-no-context')
            return True
        remaining = max(0, len(s.expected) - len(s.delivered))
        moc = self._moc(step['count'], remaining, step['u32'])
        kind = s.kind if not step['wrong'] else \
            WRONG[s.kind][step['wrong'] - 1]
        if kind == s.pull_kind:
            kind = s.kind     # (query session the server treats as 'insts')
        meth = getattr(self.conn, PULL[kind])
        if s.state != 'open':
            cls.add('pull:stale-context-after-' + s.state)
            self._expect_refused(
                lambda: meth(s.ctx, moc),
                'stale-context:pull-after-' + s.state, s)
            return True
        if kind != s.kind:
            cls.add('pull:wrong-kind')
            left = self._server_remaining(s)
            try:
                result = meth(s.ctx, moc)
            except CIMError as exc:
                if s.orphan:
                    return True
                s.refused += 1
                if exc.status_code != IEC:
                    self.fail('wrong-kind-pull:refused-with-' +
                              exc.status_code_name,
                              '%s on a %s session: %s' %
                              (PULL[kind], s.which, exc))
                now = self._server_remaining(s)
                if left is None or now is None:
                    s.peek_ok = False
                elif now != left:
                    # (only used to name the cause at once; the loss itself
                    # is what the eos clause sees at the end of the session)
                    s.reported.add('consumed')
                    self.fail('wrong-kind-pull:refused-but-consumed-objects',
                              '%s on a %s session was refused (%s) but the '
                              'server went from %r to %r remaining objects' %
                              (PULL[kind], s.which, exc.status_code_name,
                               left, now))
                return True
            except pywbem.Error as exc:
                # e.g. the client rejecting the object type the server sent
                self.fail('wrong-kind-pull:accepted',
                          '%s on a context of %s was not refused by the '
                          'server: %s: %s' % (PULL[kind], s.which,
                                              type(exc).__name__, exc))
                s.state = 'closed'
                self.server_contexts.pop(s.ctx_id, None)
                return True
            if s.kind == 'query' and kind == 'insts':
                self.fail(QUERY_KIND_SIG,
                          'PullInstancesWithPath(MaxObjectCount=%r) on a '
                          'context of OpenQueryInstances was accepted (%d '
                          'objects, eos=%r)' % (moc, len(_objs(result)),
                                                result.eos))
                s.pull_kind = 'insts'
                s.pulls += 1
                self._response(s, result, moc, 'pull')
                return True
            self.fail('wrong-kind-pull:accepted',
                      '%s(MaxObjectCount=%r) on a context of %s returned %d '
                      'objects, eos=%r' % (PULL[kind], moc, s.which,
                                           len(_objs(result)), result.eos))
            # it consumed the objects; follow the server
            s.pulls += 1
            s.delivered.extend(canon(o, OPTS) for o in _objs(result))
            if result.eos:
                s.state = 'eos'
            else:
                s.ctx = result.context
            return True
        cls.add('pull:moc=' + self._moc_class(moc, remaining))
        if moc == 0:
            s.zero_pulls += 1
        self._pull_right(s, moc)
        if s.pulls >= 2:
            cls.add('pull:session-with>=2-pulls')
        return True

    def _pull_right(self, s, moc):
        """
        Pull of the documented kind on an open session + response clauses.
        Returns False when the session cannot be continued.
        """
        try:
            result = getattr(self.conn, PULL[s.pull_kind])(s.ctx, moc)
        except CIMError as exc:
            if s.orphan:
                self.classes.add('pull:orphan-refused')
                return False
            result = None
            if s.kind == 'query' and s.pull_kind == 'query' and \
                    exc.status_code == IEC:
                # did the server register the session for the other
                # instance pull?  Then go on with that one, so that the
                # remaining clauses are still checked for query sessions.
                try:
                    result = self.conn.PullInstancesWithPath(s.ctx, moc)
                except CIMError:
                    result = None
                if result is not None:
                    self.fail(QUERY_KIND_SIG,
                              'PullInstances on a context of '
                              'OpenQueryInstances: %s; '
                              'PullInstancesWithPath is accepted' % exc)
                    s.pull_kind = 'insts'
            if result is None:
                self.fail('pull:refused-on-open-session:%s:%s' %
                          (PULL[s.pull_kind], exc.status_code_name),
                          '%s session after %d pulls, %d of %d delivered: %s'
                          % (s.which, s.pulls, len(s.delivered),
                             len(s.expected), exc))
                s.state = 'closed'
                # reported; keep the leak check for other causes
                self.server_contexts.pop(s.ctx_id, None)
                return False
        s.pulls += 1
        if s.faults:
            self.classes.add('pull:after-fault-step')
        if s.ns_faults:
            self.classes.add('pull:after-refused-removal-of-its-namespace')
        return self._response(s, result, moc, 'pull')

    def _server_remaining(self, s):
        "number of objects the server still holds for the session, if visible"
        try:
            return len(self.server_contexts[s.ctx_id]['data'])
        except (KeyError, TypeError):
            return None

    def _expect_refused(self, fn, sig, s=None):
        try:
            result = fn()
        except CIMError as exc:
            if exc.status_code != IEC:
                if s is not None and s.orphan:
                    return
                self.fail(sig + ':refused-with-' + exc.status_code_name,
                          str(exc))
            return
        n = None if result is None else len(_objs(result))
        self.fail(sig + ':accepted',
                  'call succeeded%s' %
                  ('' if n is None else ' and delivered %d objects, eos=%r' %
                   (n, result.eos)))

    def _do_close(self, step):
        s = self._pick(step)
        cls = self.classes
        if s is None or s.ctx is None:
            cls.add('close:skipped')
            return True
        if s.state != 'open':
            cls.add('close:stale-context-after-' + s.state)
            self._expect_refused(
                lambda: self.conn.CloseEnumeration(s.ctx),
                'stale-context:close-after-' + s.state, s)
            return True
        cls.add('close:open-session')
        self._close(s)
        return True

    def _close(self, s):
        try:
            self.conn.CloseEnumeration(s.ctx)
        except CIMError as exc:
            if s.orphan and exc.status_code == IEC and \
                    s.ctx_id not in self.server_contexts:
                s.state = 'closed'
                return
            self.fail('close:refused-on-open-session:' +
                      exc.status_code_name +
                      (':namespace-removed' if s.orphan else ''),
                      '%s session after %d pulls: %s' %
                      (s.which, s.pulls, exc))
            # leave the state; the leak check reports what stays behind
            s.state = 'closed'
            return
        s.state = 'closed'

    def _foreign_context(self):
        if self.foreign is None:
            f = pywbem_mock.FakedWBEMConnection(default_namespace=NS)
            f.add_cimobjects(_qualdecls(), namespace=NS)
            for c in _classes()[0]:
                f.CreateClass(c, namespace=NS)
            for i in range(4):
                f.CreateInstance(_base_inst('C14_Base', i))
            self.foreign = f
            self.foreign_ctx = {
                'insts': f.OpenEnumerateInstances(
                    'C14_Base', MaxObjectCount=1).context,
                'paths': f.OpenEnumerateInstancePaths(
                    'C14_Base', MaxObjectCount=1).context}
        return self.foreign_ctx

    def _do_bogus(self, step):
        what, action = step['what'], step['action']
        self.classes.add('bogus:%s:%s' % (what, action))
        if what == 'fabricated':
            c = ('c14c14c1-0000-4000-8000-%012d' % len(self.sessions), NS)
        elif what == 'empty':
            c = ('', NS)
        else:
            fc = self._foreign_context()
            c = fc['paths' if action == 'paths' else 'insts']
        if action == 'close':
            fn = lambda: self.conn.CloseEnumeration(c)  # noqa: E731
        else:
            fn = lambda: getattr(self.conn, PULL[action])(  # noqa: E731
                c, step['count'])
        snap = self._snapshot()
        self._expect_refused(fn, 'unknown-context:%s:%s' %
                             (what, 'close' if action == 'close' else 'pull'))
        self._check_undisturbed(snap, 'unknown-context-' + (
            'close' if action == 'close' else 'pull'))
        return True

    # ---- refused / effect-free operations in the middle of sessions ------

    def _snapshot(self):
        """
        what the server holds for the open sessions (orphans excepted: the
        server may drop them at any time)
        """
        return [(s, self._server_remaining(s)) for s in self.open_sessions()
                if not s.orphan and s.ctx_id is not None]

    def _check_undisturbed(self, snap, opname, skip=None):
        """
        The operation 'opname' was refused or is unrelated to the sessions:
        every session of the snapshot still exists on the server and holds
        the same number of undelivered objects.  (The public interface shows
        the same later on - pull refused on an open session, eos while
        objects remain - but not which operation did it.)
        """
        table = self.server_contexts
        for s, left in snap:
            if s is skip or s.state != 'open':
                continue
            if s.ctx_id not in table:
                self.fail('session-disturbed-by:%s:context-lost' % opname,
                          '%s session on %r (%d of %d delivered, %d pulls) '
                          'was open before %s and its context %r is unknown '
                          'to the server afterwards, without eos or '
                          'CloseEnumeration' %
                          (s.which, s.ns, len(s.delivered), len(s.expected),
                           s.pulls, opname, s.ctx_id))
                # reported; the session cannot be continued
                s.state = 'closed'
                continue
            now = self._server_remaining(s)
            if left is not None and now is not None and now != left:
                s.reported.add('consumed')
                self.fail('session-disturbed-by:%s:objects-consumed' % opname,
                          '%s session on %r: the server went from %d to %d '
                          'remaining objects during %s' %
                          (s.which, s.ns, left, now, opname))

    def _refused(self, fn, opname):
        """
        Run an operation that the documentation says is refused.  Returns
        True when it was.  A call that is accepted instead is not a matter of
        this property, but the model of the repository is void then: the
        history ends (counted as class fault:not-refused).
        """
        try:
            fn()
        except CIMError as exc:
            self.classes.add('fault:%s:%s' % (opname, exc.status_code_name))
            return True
        self.classes.add('fault:%s:accepted' % opname)
        return False

    def _do_fault(self, step):
        kind = step['kind']
        cls = self.classes
        conn = self.conn
        snap = self._snapshot()
        skip = None
        hit = []          # sessions the refused operation is aimed at
        ok = True
        if kind in ('rmns', 'rmns-other'):
            opname = 'remove_namespace-refused'
            nsn = step['ns'].strip('/').lower()
            hit = [s for s, _ in snap if s.ns == nsn]
            if hit:
                cls.add('fault:remove_namespace-refused:namespace-of-open-'
                        'session')
            ok = self._refused(lambda: conn.remove_namespace(step['ns']),
                               opname)
            if not ok and nsn == NSX:
                self.nsx_removed = True
        elif kind == 'addns':
            nsn = step['ns'].strip('/').lower()
            if nsn == NSX and self.nsx_removed:
                cls.add('fault:skipped')
                return True
            if nsn == 'root/interop' and not self.interop:
                # (an empty namespace more; nothing refers to it)
                opname = 'add_namespace'
                conn.add_namespace(step['ns'])
                self.interop = True
                cls.add('fault:add_namespace:interop-added')
            else:
                opname = 'add_namespace-refused'
                hit = [s for s, _ in snap if s.ns == nsn]
                ok = self._refused(lambda: conn.add_namespace(step['ns']),
                                   opname)
        elif kind == 'tmpns':
            # a namespace that comes and goes again (successful removal of a
            # namespace no session is on)
            opname = 'add+remove_namespace-of-another-namespace'
            self.tmp_id += 1
            name = 'root/tmp%d' % self.tmp_id
            conn.add_namespace(name)
            conn.remove_namespace(_SPELL[step['spell']](name))
            cls.add('fault:' + opname)
        elif kind == 'inst':
            what, cn = step['what'], step['cls']
            ns = NS_OF.get(cn, NS)
            if ns == NSX and self.nsx_removed:
                cls.add('fault:skipped')
                return True
            hit = [s for s, _ in snap if s.ns == ns]
            key = 'K' if cn == 'C14_Other' else 'Id'
            missing = _ipath(cn, key, 'nope' if key == 'K' else Uint32(99999),
                             ns)
            if what == 'create-existing':
                opname = 'CreateInstance-refused'
                lst = self.paths[cn]
                if not lst:
                    cls.add('fault:skipped')
                    return True
                inst = conn.GetInstance(lst[step['i'] % len(lst)].copy())
                inst.path = None
                ok = self._refused(
                    lambda: conn.CreateInstance(inst, namespace=ns), opname)
            elif what == 'delete-missing':
                opname = 'DeleteInstance-refused'
                ok = self._refused(lambda: conn.DeleteInstance(missing),
                                   opname)
            else:
                opname = 'ModifyInstance-refused'
                prop = {'C14_Other': 'When', 'C14_Big': 'Txt',
                        'C14_X': 'Txt'}.get(cn, 'Name')
                val = pywbem.CIMDateTime('20250101000000.000000+000') \
                    if prop == 'When' else 'modified'
                inst = CIMInstance(cn, properties=[CIMProperty(prop, val)],
                                   path=missing)
                ok = self._refused(lambda: conn.ModifyInstance(inst), opname)
        elif kind == 'class':
            what, ns = step['what'], step['ns']
            if ns == NSX and self.nsx_removed:
                cls.add('fault:skipped')
                return True
            hit = [s for s, _ in snap if s.ns == ns]
            if what == 'create-existing':
                opname = 'CreateClass-refused'
                klass = _xclass() if ns == NSX else _classes()[1] \
                    if ns == NSB else _classes()[0][3]
                ok = self._refused(
                    lambda: conn.CreateClass(klass, namespace=ns), opname)
            elif what == 'delete-missing':
                opname = 'DeleteClass-refused'
                ok = self._refused(
                    lambda: conn.DeleteClass('C14_Nope', namespace=ns),
                    opname)
            else:
                opname = 'DeleteQualifier-refused'
                ok = self._refused(
                    lambda: conn.DeleteQualifier('Key', namespace=ns), opname)
        else:
            opname, skip, ok = self._fault_disabled(step)
            if opname is None:
                return True
        if snap:
            cls.add('fault:during-session')
        if not ok:
            # accepted although documented as refused: the repository model
            # is void; be lenient with what is open and stop here
            cls.add('fault:not-refused')
            self.trad_cache = {}
            for s in self.open_sessions():
                s.orphan = True
            return False
        self._check_undisturbed(snap, opname, skip)
        for s, _ in snap:
            if s.state == 'open':
                s.faults += 1
                if s in hit and opname == 'remove_namespace-refused':
                    s.ns_faults += 1
        return True

    def _fault_disabled(self, step):
        """
        The server stops supporting pull operations for one call
        (FakedWBEMConnection.disable_pull_operations): the call is refused
        and the sessions go on afterwards.  Returns (opname, session to skip
        in the comparison, refused?).
        """
        action = step['action']
        cls = self.classes
        conn = self.conn
        s = None
        if action != 'open':
            cands = self.open_sessions()
            if not cands:
                cls.add('fault:skipped')
                return None, None, True
            s = cands[step['s'] % len(cands)]
        opname = {'pull': 'Pull', 'close': 'CloseEnumeration',
                  'open': 'Open'}[action] + \
            '-while-pull-operations-disabled'
        remaining = 0 if s is None else \
            max(0, len(s.expected) - len(s.delivered))
        moc = self._moc(step['count'], remaining, False)
        conn.disable_pull_operations = True
        try:
            if action == 'pull':
                result = getattr(conn, PULL[s.pull_kind])(s.ctx, moc)
            elif action == 'close':
                result = conn.CloseEnumeration(s.ctx)
            else:
                result = conn.OpenEnumerateInstancePaths(
                    'C14_Base', MaxObjectCount=1)
        except CIMError as exc:
            cls.add('fault:%s:%s' % (opname, exc.status_code_name))
            return opname, None, True
        finally:
            conn.disable_pull_operations = False
        # served nevertheless (the statement does not forbid that): follow
        cls.add('fault:%s:accepted' % opname)
        if action == 'pull':
            s.pulls += 1
            if moc == 0:
                s.zero_pulls += 1
            self._response(s, result, moc, 'pull')
        elif action == 'close':
            s.state = 'closed'
        elif not result.eos:
            conn.CloseEnumeration(result.context)
        return opname, s, True

    def _touch(self, path, ns):
        p = path.copy()
        if p.namespace is None:
            p.namespace = ns
        c = canon(p, OPTS)
        for s in self.open_sessions():
            s.dirty.add(c)

    def _do_mutate(self, step):
        what, cn = step['what'], step['cls']
        self.trad_cache = {}
        ns = NS_OF.get(cn, NS)
        if ns == NSX and self.nsx_removed:
            self.classes.add('mutate:skipped')
            return True
        lst = self.paths[cn]
        self.classes.add('mutate:' + what)
        if self.open_sessions():
            self.classes.add('mutate:during-session')
        if what == 'create' and cn != 'C14_Link':
            self.new_id += 1
            if cn == 'C14_Other':
                inst = CIMInstance(cn, properties=[
                    CIMProperty('K', 'new%d' % self.new_id)])
            elif cn in ('C14_Big', 'C14_X'):
                inst = CIMInstance(cn, properties=[
                    CIMProperty('Id', Uint32(self.new_id))])
            else:
                inst = _base_inst(cn, self.new_id)
            path = self.conn.CreateInstance(inst, namespace=ns)
            self._touch(path, ns)
            lst.append(path)
            return True
        if not lst:
            self.classes.add('mutate:skipped')
            return True
        i = step['i'] % len(lst)
        path = lst[i]
        if what == 'modify' and cn != 'C14_Link':
            prop = {'C14_Other': 'When', 'C14_Big': 'Txt',
                    'C14_X': 'Txt'}.get(cn, 'Name')
            val = pywbem.CIMDateTime('20250101000000.000000+000') \
                if prop == 'When' else 'modified'
            inst = CIMInstance(cn, properties=[CIMProperty(prop, val)],
                               path=path.copy())
            self._touch(path, ns)
            self.conn.ModifyInstance(inst)
            return True
        # delete
        self._touch(path, ns)
        self.conn.DeleteInstance(path.copy())
        del lst[i]
        return True

    def _do_remove_ns(self, step):
        if self.nsx_removed:
            self.classes.add('remove_ns:skipped')
            return True
        conn = self.conn
        self.trad_cache = {}
        for path in conn.EnumerateInstanceNames('C14_X', namespace=NSX):
            self._touch(path, NSX)
            conn.DeleteInstance(path)
        self.paths['C14_X'] = []
        conn.DeleteClass('C14_X', namespace=NSX)
        for q in conn.EnumerateQualifiers(namespace=NSX):
            conn.DeleteQualifier(q.name, namespace=NSX)
        conn.remove_namespace(NSX)
        self.nsx_removed = True
        self.classes.add('remove_ns')
        for s in self.open_sessions():
            if s.ns == NSX:
                s.orphan = True
                self.classes.add('remove_ns:during-session')
        return True

    # ---- end of history ----------------------------------------------------

    def finish(self):
        """
        Every enumeration terminates: drain or close what is still open,
        re-try the finished contexts, then the server must hold no context.
        """
        cls = set()
        mode = self.init['drain']
        for idx, s in enumerate(self.sessions):
            if s.state != 'open':
                continue
            close = (mode >> (idx % 16)) & 1 and not s.refused
            if s.orphan or close:
                cls.add('finish:close')
                self._close(s)
                continue
            cls.add('finish:drain')
            remaining = max(0, len(s.expected) - len(s.delivered))
            count = [1, 2, 7, 1000][(mode + idx) % 4]
            # each pull with a positive count must deliver or end
            limit = remaining // count + 2
            n = 0
            while s.state == 'open':
                if n >= limit + len(s.dirty):
                    self.fail('drain:session-does-not-terminate',
                              '%s session: %d pulls with MaxObjectCount=%d '
                              'for %d remaining objects and still no eos' %
                              (s.which, n, count, remaining))
                    self._close(s)
                    break
                n += 1
                if not self._pull_right(s, count):
                    break
        self._check_server_table('after draining/closing all sessions')
        # finished contexts stay refused
        for s in self.sessions:
            if s.ctx is None or s.state == 'open' or s.orphan:
                continue
            cls.add('finish:retry-after-' + s.state)
            meth = getattr(self.conn, PULL[s.pull_kind])
            self._expect_refused(lambda: meth(s.ctx, 1),  # noqa: B023
                                 'stale-context:pull-after-' + s.state, s)
            self._expect_refused(
                lambda: self.conn.CloseEnumeration(s.ctx),  # noqa: B023
                'stale-context:close-after-' + s.state, s)
        left = len(self.server_contexts)
        if left:
            self.fail('leak:contexts-left-at-end',
                      '%d contexts left on the server' % left)
        multi = any(s.pulls >= 2 for s in self.sessions)
        zero = any(s.zero_pulls for s in self.sessions)
        inter = self.max_open >= 2
        if multi:
            cls.add('history:session-with>=2-pulls')
        if zero:
            cls.add('history:pull-with-MaxObjectCount=0')
        if inter:
            cls.add('history:interleaved-sessions')
        if any(s.refused for s in self.sessions):
            cls.add('history:refused-wrong-kind-pull')
        if any(s.dirty for s in self.sessions):
            cls.add('history:repository-changed-during-session')
        if any(s.orphan for s in self.sessions):
            cls.add('history:namespace-removed-during-session')
        if any(s.faults for s in self.sessions):
            cls.add('history:refused-or-unrelated-operation-during-session')
        if any(s.ns_faults for s in self.sessions):
            cls.add('history:refused-removal-of-namespace-of-open-session')
        if any(len(s.expected) > 100 for s in self.sessions):
            cls.add('history:session-with>100-objects')
        if any(s.kind == 'query' for s in self.sessions):
            cls.add('history:query-session')
        cls.add('history')
        self.ctx.case(nontrivial=multi or zero or inter, classes=sorted(cls))

    def teardown(self):
        self.conn = None
        self.foreign = None


class StubMachine(Machine):
    STUB_QUERY = True


SUBCHECKS = [
    # budget: the soft time limit of the runner must not be hit (a skipped
    # example draws nothing, which Hypothesis reports as flaky generation)
    Sub('sessions', machine=Machine, quick=(16, 100), thorough=(16, 3000),
        steps=(30, 60), case_timeout=120, budget=(400, 3000)),
    Sub('query_stub', machine=StubMachine, quick=(16, 20), thorough=(16, 600),
        steps=(30, 60), case_timeout=120, budget=(400, 3000)),
]
