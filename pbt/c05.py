"""
C05 - Equality, hashing and copying of CIM objects are lawful.  DESIGN.md 4.5.

Sub-checks
  eq_paths / eq_elements / eq_objects / eq_misc
      triples (a, b, c) of one kind; b is derived from a and c from b by a
      recipe transformation: identical rebuild, case variant, order variant,
      "type variant" (int vs UintN, str vs Char16, None vs explicit default,
      same instant in another UTC offset), single-attribute mutant (at any
      nesting level) or an independent object.  Checked: reflexivity,
      symmetry, transitivity, != is not ==, == implies equal hash and
      set/dict membership, == never raises for two objects of one kind,
      case/order variants are equal, single-attribute mutants are unequal.
  copies
      copy(), copy.copy, copy.deepcopy and pickle (protocols 0, 2, HIGHEST)
      of an object give an equal object of the same type with equal hash, and
      a generated sequence of mutations of the copy (restricted to the depth
      the kind of copy promises) leaves the original untouched.
  sequences
      ONE object lives through a short history: a first observation (hash(),
      member of a set, key of a dict, ==/!=, hash() of every nested object
      and child dictionary, repr(), or none), then 1..3 rounds of [derive a
      copy by one of the six copy methods,] 1..3 in-place modifications of
      the object or of one of its derived copies through the public routes
      at every nesting level (attribute assignment, every modifying method of
      every child dictionary - also popitem()/clear()/pop()/setdefault()/
      update() -, in-place changes of array value lists, of the path, of
      value objects and of child objects held in the dictionaries down to
      level 3) and a check.  Oracle: observers are pure - the same history
      without any observation is run on a freshly built "twin" that is never
      hashed or compared before the check; the object and the twin must then
      have the same public state, be equal in both directions (!= false),
      have equal hashes and be one set member / dict key.  (Anything that is
      kept between two calls - a cached hash value, a cached folded name, a
      flag - and not invalidated by one of the modification routes shows up
      as a difference to the twin.)
"""

import copy
import pickle
import traceback
from datetime import datetime, timedelta, timezone

from hypothesis import strategies as st

from pywbem import (CIMInstanceName, CIMClassName, CIMInstance, CIMClass,
                    CIMProperty, CIMMethod, CIMParameter, CIMQualifier,
                    CIMQualifierDeclaration, CIMDateTime, Uint8)
from pywbem._nocasedict import NocaseDict
from pywbem._vendor.nocasedict import NocaseDict as _BaseNocaseDict

from .runner import Sub, exc_signature
from . import strategies as S

PROPERTY = 'C05'
RULE = (
    "eq_*: a = generated object of one of the 11 kinds (CIMInstanceName with "
    "nested references, CIMClassName, CIMInstance/CIMClass with embedded "
    "objects and paths, CIMProperty, CIMMethod, CIMParameter, CIMQualifier, "
    "CIMQualifierDeclaration, CIMDateTime, NocaseDict); b = op1(a), c = "
    "op2(b) with op in {identical rebuild, swap case of names/host/namespace "
    "at every nesting level, shuffle keybindings/properties/methods/"
    "parameters/qualifiers at every level, numeric-type/Char16/None-vs-"
    "default/UTC-offset variant, special-case-mapping variant of one "
    "name-like attribute, single-attribute mutant of a randomly "
    "chosen (nested) node, independent object}; all laws are evaluated on "
    "the 4 objects (a, rebuilt a, b, c).  copies: object x copy method x up "
    "to 4 mutation steps on the copy.  Non-trivial = the pair (a, b) consists "
    "of two distinct Python objects related by a case/order/type variant or "
    "by a single-attribute mutation (eq_*), or a copy that is mutated at "
    "least once (copies; CIMDateTime copies count as they are immutable), or "
    "a history with at least one modification after an observation "
    "(sequences: object of one of the 10 mutable kinds x first observation "
    "x 1..3 rounds of [copy derivation] + 1..3 in-place modifications + "
    "check against the never-observed twin; classes pre:*, mut:<depth>, "
    "hashed-then:<depth> = modification of an object whose hash had been "
    "taken before, derive:<method>[:of-hashed]).  "
    "Distinct = distinct generated example.")
ASSUMPTIONS = [
    "no NaN anywhere in the objects (the property excludes NaN)",
    "CIM names are ASCII identifiers, some with one or two non-ASCII letters "
    "that have special case mappings (sharp s, long s, final sigma, "
    "ligatures, dotted I, ...); 'differs only in case' (asserted equal) = "
    "ASCII letters swapped; objects whose names differ by such a special "
    "case mapping ('Stra\u00dfe' vs 'STRASSE') only have to obey the laws - "
    "whether they are equal is not asserted (lower() vs casefold())",
    "instance paths have 0..3 keybindings (keyless paths are legal objects; "
    "pywbem only warns when converting them) with non-None names and "
    "non-None values; names of the keybindings of CIMInstance.path are "
    "disjoint (under lower() and casefold()) from the property names of "
    "that instance (the deprecated propagation of "
    "property values into path keybindings would otherwise overwrite them)",
    "a pair that differs in the numeric Python type of a keybinding (int vs "
    "UintN, 1 vs 1.0 vs True), in str vs Char16, in None vs the explicit "
    "default (is_array, embedded_object, scopes) or in the UTC offset/"
    "precision of a CIMDateTime for the same instant is only required to "
    "obey the laws; whether it is equal is not asserted",
    "CIMDateTime equality is on the attributes datetime/timedelta (its "
    "__eq__ docstring); precision and minutes_from_utc are not compared",
    "NocaseDict values are hashable CIM values/objects (hash() of a "
    "dictionary with list values cannot work)",
    "independence after copy(): what the copy() docstring of the class "
    "promises - own attribute values, own child dictionaries, own array "
    "value lists, own path (CIMInstance/CIMClass), own mutable value objects "
    "(CIMProperty/CIMParameter: 'any mutable types in attributes except "
    "[the qualifier objects] are copied'); child objects in dictionaries and "
    "keybinding values are documented as shared and are not touched.  "
    "copy.copy(): only attribute rebinding.  deepcopy/pickle: anything",
    "sequences: the modifications are the documented ways to manipulate a "
    "CIM object ('mutable', attributes settable, child dictionaries "
    "manipulated through the dictionary interface; _cim_obj.py module "
    "docstring: after a modification the object 'has the same hash value as "
    "the equal' other object); nothing is asserted about a set/dict that "
    "contains the object WHILE it is modified (documented as the user's "
    "business), only about hash()/==/membership evaluated afterwards",
    "sequences: whether copy.copy() shares an EMPTY child dictionary with "
    "the original depends on whether that dictionary was ever read (lazy "
    "initialization in the getters) and is not promised either way: all "
    "child dictionaries of the source are read (in the observed and in the "
    "twin run) before a copy is derived; CIMDateTime is left out (immutable)",
]
SENSITIVITY = [
    "_utils._eq_name compares case-sensitively -> "
    "eq_*/eq:case-variant-unequal:<kind> (all 10 kinds with names)",
    "_utils._hash_name hashes without .lower() -> "
    "eq_*/hash:equal-objects-differ:<kind>",
    "CIMProperty.__eq__ forgets array_size -> "
    "eq_elements/eq:mutant-equal:prop.array_size (+ eq_objects, nested)",
    "CIMParameter.__eq__ forgets value -> "
    "eq_elements/eq:mutant-equal:param.value",
    "CIMInstanceName.__eq__ forgets host -> eq_paths/eq:mutant-equal:"
    "ipath.host (+ hash:equal-objects-differ:ipath)",
    "CIMDateTime.__eq__ ignores timedelta -> eq_misc/eq:mutant-equal:"
    "datetime.instant",
    "HashableMixin.__hash__ uses tuple instead of frozenset (order "
    "sensitive) -> eq_*/hash:equal-objects-differ:<kind>",
    "CIMInstance.copy() shares the properties dictionary -> "
    "copies/indep:copy():inst:dict-properties",
    "CIMInstance.path setter does not copy the path -> "
    "copies/indep:copy():inst:path",
    "cimvalue() returns the input list when nothing needs converting -> "
    "copies/indep:copy():{prop,param,qual,qualdecl}:list",
    "CIMQualifier.copy() forgets translatable -> "
    "copies/copy:copy():not-equal:qual",
    "SlottedPickleMixin.__getstate__ skips _propagated -> "
    "copies/eq:raises:<kind>:AttributeError@_cim_obj:propagated",
    "CIMInstance.path setter skips the copy for a path without keybindings "
    "(seeded change1) -> copies/indep:copy():inst:path (keyless paths)",
    "_eq_name uses casefold() while _hash_name uses lower() (seeded "
    "change2) -> eq_*/hash:equal-objects-differ:<kind> (special-case-"
    "mapping name variants, law-only)",
    "NocaseDict caches its hash value and invalidates it only in "
    "__setitem__/__delitem__/pop (seeded change6; popitem(), clear() and "
    "in-place changes of child objects leave it stale) -> sequences/"
    "seq:hash-stale:{own,nested}:<kind> for all 10 mutable kinds (hundreds "
    "of hits per kind in the quick tier)",
    "control: _CIMComparisonMixin.__ne__ = not other.__eq__(self) "
    "(semantically equivalent) -> no new signature",
    "control: CIMParameter.__hash__ drops array_size (still lawful: equal "
    "objects keep equal hashes) -> no new signature, as it must be",
]

EQ, NE, ANY = 'EQ', 'NE', '?'


# ---------------------------------------------------------------------------
# choice tape: all choices of the recipe transformations come from a list of
# integers drawn by Hypothesis

class Tape:
    """
    Deterministic stream of choices derived from one integer drawn by
    Hypothesis (splitmix64 steps; no global random state).
    """
    M = 2 ** 64 - 1

    def __init__(self, seed):
        self.s = seed & self.M

    def next(self, n):
        self.s = (self.s + 0x9E3779B97F4A7C15) & self.M
        z = self.s
        z = ((z ^ (z >> 30)) * 0xBF58476D1CE4E5B9) & self.M
        z = ((z ^ (z >> 27)) * 0x94D049BB133111EB) & self.M
        z ^= z >> 31
        return z % n if n > 0 else 0

    def pick(self, seq):
        return seq[self.next(len(seq))]

    def chance(self, num, den):
        return self.next(den) < num

    def shuffle(self, lst):
        lst = list(lst)
        for i in range(len(lst) - 1, 0, -1):
            j = self.next(i + 1)
            lst[i], lst[j] = lst[j], lst[i]
        return lst


# ---------------------------------------------------------------------------
# recipes: normalisation, build

def _folds(names):
    "lower() and casefold() forms of the names"
    out = set()
    for n in names:
        out.add(n.lower())
        out.add(n.casefold())
    return out


def norm(x):
    "NaN -> 0.5; path keys of instances disjoint from property names"
    if isinstance(x, float):
        return 0.5 if x != x else x
    if isinstance(x, dict):
        d = {k: norm(v) for k, v in x.items()}
        if d.get('k') == 'inst' and d.get('path') is not None:
            names = _folds(p['name'] for p in d['properties'])
            used = set()
            keys = []
            for n, kt, v in d['path']['keys']:
                while _folds([n]) & (names | used):
                    n = n + '_k'
                used |= _folds([n])
                keys.append((n, kt, v))
            d['path']['keys'] = keys
        return d
    if isinstance(x, list):
        return [norm(e) for e in x]
    if isinstance(x, tuple):
        return tuple(norm(e) for e in x)
    return x


def _is_dt(r):
    return isinstance(r, tuple) and r and r[0] in ('ts', 'iv', 'dtstr')


def build_ncd_value(vr):
    t, v = vr
    if t == 'obj':
        return build(v)
    if t == 'uint8':
        return Uint8(v)
    if t == 'dt':
        return S.build_datetime(v)
    return v      # str, int, float, bool, none


def build(r):
    "recipe -> object (adds NocaseDict, CIMDateTime, CIMClass.path)"
    if _is_dt(r):
        return S.build_datetime(r)
    if r['k'] == 'ncd':
        return NocaseDict([(k, build_ncd_value(v)) for k, v in r['items']])
    obj = S.build(r)
    if r['k'] == 'class' and r.get('path') is not None:
        obj.path = S.build(r['path'])
    return obj


# ---------------------------------------------------------------------------
# exact dump of all public attributes (used to detect changes of an original)

def dump(o):
    if o is None or isinstance(o, bool):
        return o
    if isinstance(o, CIMInstanceName):
        return ('ipath', o.classname, o.host, o.namespace,
                dump(o.keybindings))
    if isinstance(o, CIMClassName):
        return ('cpath', o.classname, o.host, o.namespace)
    if isinstance(o, CIMInstance):
        return ('inst', o.classname, dump(o.path), dump(o.properties),
                dump(o.qualifiers))
    if isinstance(o, CIMClass):
        return ('class', o.classname, o.superclass, dump(o.path),
                dump(o.properties), dump(o.methods), dump(o.qualifiers))
    if isinstance(o, CIMProperty):
        return ('prop', o.name, dump(o.value), o.type, o.reference_class,
                o.embedded_object, o.is_array, o.array_size, o.propagated,
                o.class_origin, dump(o.qualifiers))
    if isinstance(o, CIMParameter):
        return ('param', o.name, o.type, o.reference_class, o.is_array,
                o.array_size, dump(o.qualifiers), dump(o.value),
                o.embedded_object)
    if isinstance(o, CIMMethod):
        return ('meth', o.name, o.return_type, o.class_origin, o.propagated,
                dump(o.parameters), dump(o.qualifiers))
    if isinstance(o, CIMQualifier):
        return ('qual', o.name, o.type, dump(o.value), o.propagated,
                o.overridable, o.tosubclass, o.toinstance, o.translatable)
    if isinstance(o, CIMQualifierDeclaration):
        return ('qualdecl', o.name, o.type, dump(o.value), o.is_array,
                o.array_size, dump(o.scopes), o.overridable, o.tosubclass,
                o.toinstance, o.translatable)
    if isinstance(o, CIMDateTime):
        return ('dt', str(o))
    if isinstance(o, _BaseNocaseDict):
        return ('ncd', [(k, dump(v)) for k, v in o.items()])
    if isinstance(o, list):
        return [dump(e) for e in o]
    return (type(o).__name__, repr(o))


# ---------------------------------------------------------------------------
# recipe transformations

NAME_FIELDS = {
    'ipath': ('classname', 'namespace', 'host'),
    'cpath': ('classname', 'namespace', 'host'),
    'inst': ('classname',),
    'class': ('classname', 'superclass'),
    'prop': ('name', 'class_origin', 'reference_class'),
    'param': ('name', 'reference_class'),
    'meth': ('name', 'class_origin'),
    'qual': ('name',),
    'qualdecl': ('name',),
}
CHILD_LISTS = {
    'inst': ('properties', 'qualifiers'),
    'class': ('properties', 'methods', 'qualifiers'),
    'prop': ('qualifiers',),
    'param': ('qualifiers',),
    'meth': ('parameters', 'qualifiers'),
}


def eqvar(r, tape, case, order):
    """
    Variant of recipe r that differs only in the lexical case of CIM names,
    host, namespace and/or the order of children, at every nesting level.
    """
    if not isinstance(r, dict):
        return r
    k = r['k']
    d = dict(r)
    if k == 'ncd':
        items = []
        for key, (t, v) in r['items']:
            if case:
                key = S.swapcase_name(key, tape.next(2 ** 30))
            if t == 'obj':
                v = eqvar(v, tape, case, order)
            items.append((key, (t, v)))
        d['items'] = tape.shuffle(items) if order else items
        return d
    if case:
        for f in NAME_FIELDS[k]:
            if isinstance(r.get(f), str):
                d[f] = S.swapcase_name(r[f], tape.next(2 ** 30))
    for f in CHILD_LISTS.get(k, ()):
        lst = [eqvar(c, tape, case, order) for c in r[f]]
        d[f] = tape.shuffle(lst) if order else lst
    if k == 'ipath':
        keys = []
        for n, kt, v in r['keys']:
            if case:
                n = S.swapcase_name(n, tape.next(2 ** 30))
            if kt == 'reference':
                v = eqvar(v, tape, case, order)
            keys.append((n, kt, v))
        d['keys'] = tape.shuffle(keys) if order else keys
    if r.get('path') is not None:
        d['path'] = eqvar(r['path'], tape, case, order)
    if k in ('prop', 'param'):
        v = r['value']
        if isinstance(v, dict):
            d['value'] = eqvar(v, tape, case, order)
        elif isinstance(v, list):
            # the order of array *values* is significant: not shuffled
            d['value'] = [eqvar(e, tape, case, order) for e in v]
    return d


def nodes(r, out, sibs=None):
    "collect (node, names of its siblings) of all CIM object recipes in r"
    if not isinstance(r, dict):
        return
    out.append((r, sibs))
    k = r['k']
    if k == 'ncd':
        for _key, (t, v) in r['items']:
            if t == 'obj':
                nodes(v, out)
        return
    if k == 'ipath':
        for _n, kt, v in r['keys']:
            if kt == 'reference':
                nodes(v, out)
    for f in CHILD_LISTS.get(k, ()):
        names = [c['name'] for c in r[f]]
        if k == 'inst' and f == 'properties' and r.get('path'):
            names = names + [n for n, _kt, _v in r['path']['keys']]
        for c in r[f]:
            nodes(c, out, names)
    if r.get('path') is not None:
        nodes(r['path'], out)
    if k in ('prop', 'param'):
        v = r['value']
        for e in (v if isinstance(v, list) else [v]):
            if isinstance(e, dict):
                nodes(e, out)


def _fresh_name(base, sibs, tape):
    new = (base or 'N') + tape.pick(['X', '_m', '9', 'Zq'])
    low = _folds(sibs or ())
    while _folds([new]) & low:
        new += '_'
    return new


_HOSTS = ['mutHost', 'other.example.com:5989', '[::2]', '10.0.0.9']
_NSS = ['mut/ns', 'interop2', 'root/other']
_CLSS = ['Mut_Class', 'CIM_Other', 'X1']


def _m_optname(node, f, tape, pool):
    old = node[f]
    if old is None:
        node[f] = tape.pick(pool)
    elif tape.chance(1, 3):
        node[f] = None
    else:
        new = tape.pick(pool)
        # different under lower() and under casefold()
        node[f] = new if not _folds([new]) & _folds([old]) else old + 'X'


def _m_tristate(node, f, tape):
    node[f] = tape.pick([x for x in (None, True, False) if x is not node[f]])


def _dt_fields(rec):
    "python-level fields of a datetime recipe (uses the CIMDateTime parser)"
    x = S.build_datetime(rec)
    if x.is_interval:
        td = x.timedelta
        return ('iv', td.days, td.seconds, td.microseconds)
    dt = x.datetime
    return ('ts', dt.year, dt.month, dt.day, dt.hour, dt.minute, dt.second,
            dt.microsecond, x.minutes_from_utc)


def other_dt(rec, tape):
    "datetime recipe for a different instant/interval"
    f = _dt_fields(rec)
    if tape.chance(1, 6):
        return ('iv', 1, 2, 3) if f[0] == 'ts' else \
            ('ts', 2001, 2, 3, 4, 5, 6, 7, 60)
    if f[0] == 'iv':
        return ('iv', f[1] - 1 if f[1] > 0 else 1, f[2], f[3])
    if tape.chance(1, 2):
        return f[:3] + (1 if f[3] != 1 else 2,) + f[4:]
    return f[:7] + ((f[7] + 1) % 1000000,) + f[8:]


def same_instant_dt(rec, tape):
    "other spelling of the same instant/interval (law-only variant) or None"
    f = _dt_fields(rec)
    if f[0] == 'iv' or (rec[0] == 'dtstr' and tape.chance(1, 2)):
        return f if f != rec else None      # drops the precision
    off = tape.pick([0, 60, -60, 720, -720, 999, -999, 1, -1,
                     tape.next(1999) - 999])
    try:
        dt = datetime(*f[1:8], tzinfo=timezone(timedelta(minutes=f[8])))
        n = dt.astimezone(timezone(timedelta(minutes=off)))
    except (OverflowError, ValueError):
        return None
    return ('ts', n.year, n.month, n.day, n.hour, n.minute, n.second,
            n.microsecond, off)


def default_scalar(t):
    if t == 'boolean':
        return True
    if t == 'string':
        return 'dflt'
    if t == 'char16':
        return 'c'
    if t == 'datetime':
        return ('ts', 2000, 1, 2, 3, 4, 5, 6, 0)
    if t in S.INT_TYPES or t == 'int':
        return 1
    if t in S.REAL_TYPES or t == 'float':
        return 1.5
    if t == 'reference':
        return {'k': 'ipath', 'classname': 'Ref_C',
                'keys': [('k', 'string', 'v')], 'namespace': None,
                'host': None}
    raise ValueError(t)


def _emb_inst():
    return {'k': 'inst', 'classname': 'Emb_C', 'properties': [],
            'qualifiers': [], 'path': None}


def _emb_class():
    return {'k': 'class', 'classname': 'Emb_C', 'superclass': None,
            'properties': [], 'methods': [], 'qualifiers': []}


def other_scalar(t, v, tape):
    "scalar recipe of CIM type t (or key type) that is different from v"
    if isinstance(v, dict):
        w = copy.deepcopy(v)
        w['classname'] = w['classname'] + 'X'
        return w
    if t == 'boolean':
        return not v
    if t == 'string':
        return v + 'x' if tape.chance(1, 2) else ('other' if v != 'other'
                                                  else 'other2')
    if t == 'char16':
        return 'a' if v != 'a' else 'b'
    if t == 'datetime':
        return other_dt(v, tape)
    if t == 'int':
        return v + 1 if v < 2 ** 64 - 1 else v - 1
    if t in S.INT_TYPES:
        lo, hi = S.INT_RANGE[t]
        return v + 1 if v < hi else v - 1
    if t in S.REAL_TYPES or t == 'float':
        return 0.0 if v != 0 else 1.0
    raise ValueError(t)


def _default_qual(name):
    return {'k': 'qual', 'name': name, 'type': 'string', 'value': 'v',
            'is_array': False, 'propagated': None, 'overridable': None,
            'tosubclass': None, 'toinstance': None, 'translatable': None}


def _default_prop(name):
    return {'k': 'prop', 'name': name, 'type': 'uint8', 'value': 7,
            'is_array': False, 'array_size': None, 'reference_class': None,
            'embedded_object': None, 'class_origin': None, 'propagated': None,
            'qualifiers': []}


def _default_param(name):
    return {'k': 'param', 'name': name, 'type': 'string', 'value': None,
            'is_array': False, 'array_size': None, 'reference_class': None,
            'embedded_object': None, 'qualifiers': []}


def _default_meth(name):
    return {'k': 'meth', 'name': name, 'return_type': 'uint32',
            'parameters': [], 'class_origin': None, 'propagated': None,
            'qualifiers': []}


_CHILD_DEFAULT = {'qualifiers': _default_qual, 'properties': _default_prop,
                  'parameters': _default_param, 'methods': _default_meth}


def _m_children(node, f, tape, extra_names=()):
    "add or remove one child in list f"
    lst = node[f]
    if lst and tape.chance(1, 2):
        del lst[tape.next(len(lst))]
        return 'remove'
    names = [c['name'] for c in lst] + list(extra_names)
    lst.insert(tape.next(len(lst) + 1),
               _CHILD_DEFAULT[f](_fresh_name('New', names, tape)))
    return 'add'


def _value_is_array(node, kind):
    ia = node.get('is_array') if kind != 'qual' else None
    if ia is None:
        return isinstance(node['value'], list)
    return ia


def _m_value(node, kind, tape):
    "different value for the same type; returns a label suffix or None"
    t = node['type']
    v = node['value']
    emb = node.get('embedded_object')
    isarr = _value_is_array(node, kind)
    has_obj = any(isinstance(e, dict) and e['k'] in ('inst', 'class')
                  for e in (v if isinstance(v, list) else [v]))

    def dflt():
        if emb or has_obj:
            return _emb_inst()
        return default_scalar(t)

    # change of the *kind* of value: string <-> embedded object,
    # embedded instance <-> embedded class
    if kind in ('prop', 'param') and t == 'string' and v not in (None, []) \
            and tape.chance(1, 4):
        if emb == 'object' and has_obj:
            first = [e for e in (v if isarr else [v])
                     if isinstance(e, dict)][0]
            new = _emb_class() if first['k'] == 'inst' else _emb_inst()
            node['value'] = [new] if isarr else new
            return 'kind-inst-class'
        if emb is None and not has_obj and \
                (not isarr or all(e is not None for e in v)):
            node['value'] = [_emb_inst()] if isarr else _emb_inst()
            return 'kind-string-object'
        if has_obj:
            node['value'] = ['plain'] if isarr else 'plain'
            node['embedded_object'] = None
            return 'kind-object-string'
    if not isarr:
        if v is None:
            node['value'] = dflt()
            return 'null-scalar'
        if tape.chance(1, 4):
            node['value'] = None
            return 'scalar-null'
        node['value'] = other_scalar(t, v, tape)
        return 'scalar'
    if v is None:
        node['value'] = []
        if kind == 'qual':
            node['is_array'] = True
        return 'null-empty'
    v = list(v)
    c = tape.next(5)
    if c == 0:
        # for a qualifier NULL is NULL; keep array-ness in the recipe only
        node['value'] = None
        return 'array-null'
    if c == 1 or not v:
        if emb and not v:
            v.append(dflt())
        else:
            v.insert(tape.next(len(v) + 1) if v else 0,
                     dflt() if tape.chance(3, 4) or not v else None)
            # an embedded-object array must not start with a non-object
        if (emb or has_obj) and v and not isinstance(v[0], dict) and \
                v[0] is not None:
            return None
        node['value'] = v
        return 'array-insert'
    if c == 2:
        if (emb or has_obj) and len(v) > 1 and tape.chance(1, 2):
            del v[-1]
        else:
            del v[tape.next(len(v))]
        if has_obj and emb is None and (not v or not isinstance(v[0], dict)):
            return None     # inference of embedded_object would change too
        node['value'] = v
        return 'array-remove'
    i = tape.next(len(v))
    if v[i] is None:
        v[i] = dflt()
    elif tape.chance(1, 4) and not (has_obj and emb is None and i == 0):
        v[i] = None
    else:
        v[i] = other_scalar(t, v[i], tape)
    node['value'] = v
    return 'array-element'


def _m_type(node, kind, tape):
    t = node['type']
    v = node['value']
    if node.get('embedded_object') or node.get('reference_class'):
        return None
    vals = [e for e in (v if isinstance(v, list) else [v]) if e is not None]
    if any(isinstance(e, dict) for e in vals):
        return None
    allowed = S.QUAL_TYPES if kind in ('qual', 'qualdecl') else S.ALL_TYPES
    if not vals:
        cand = [x for x in allowed if x != t]
        if kind == 'prop' and _value_is_array(node, kind):
            cand = [x for x in cand if x != 'reference']
    elif t in S.INT_TYPES:
        cand = [x for x in sorted(S.INT_TYPES) if x != t and all(
            S.INT_RANGE[x][0] <= e <= S.INT_RANGE[x][1] for e in vals)]
    elif t in S.REAL_TYPES:
        cand = ['real64'] if t == 'real32' else []
    else:
        cand = []
    if not cand:
        return None
    node['type'] = tape.pick(cand)
    return 'type'


def _m_is_array(node, kind, tape):
    if node['value'] is not None or node.get('array_size') is not None:
        return None
    if node['type'] == 'reference' or node.get('reference_class'):
        return None
    cur = bool(node['is_array'])
    node['is_array'] = not cur
    return 'is_array'


def _m_array_size(node, kind, tape):
    # also on scalar elements: pywbem does not tie array_size to is_array
    # ("array_size is ignored when is_array=False" is about its meaning, the
    # attribute is stored and listed among the compared attributes)
    a = node['array_size']
    if a is None:
        node['array_size'] = 3
    else:
        node['array_size'] = None if tape.chance(1, 3) else a + 1
    return 'array_size'


def _m_embedded(node, kind, tape):
    if node['type'] != 'string':
        return None
    v = node['value']
    emb = node['embedded_object']
    vals = [e for e in (v if isinstance(v, list) else [v]) if e is not None]
    if not vals and (v is None or v == []):
        # NULL / empty value: all three settings are valid
        node['embedded_object'] = tape.pick(
            [x for x in (None, 'instance', 'object') if x != emb])
        return 'embedded_object'
    if vals and all(isinstance(e, dict) and e['k'] == 'inst' for e in vals) \
            and emb in ('instance', 'object') and \
            (not isinstance(v, list) or v[0] is not None):
        node['embedded_object'] = 'object' if emb == 'instance' \
            else 'instance'
        return 'embedded_object'
    return None


def _m_refclass(node, kind, tape):
    if node['type'] != 'reference':
        return None
    _m_optname(node, 'reference_class', tape, _CLSS)
    return 'reference_class'


def mutate_node(node, sibs, tape):
    """
    Change one public attribute of the node (in place) to a different value.
    Returns 'kind.attr' or None.
    """
    k = node['k']
    if k == 'ipath':
        attrs = ['classname', 'namespace', 'host', 'keys', 'keys', 'keys']
    elif k == 'cpath':
        attrs = ['classname', 'namespace', 'host']
    elif k == 'inst':
        attrs = ['classname', 'path', 'properties', 'qualifiers']
    elif k == 'class':
        attrs = ['classname', 'superclass', 'properties', 'methods',
                 'qualifiers']
        if 'path' in node:      # only top-level class recipes have a path
            attrs.append('path')
    elif k == 'prop':
        attrs = ['name', 'value', 'value', 'type', 'reference_class',
                 'embedded_object', 'is_array', 'array_size', 'propagated',
                 'class_origin', 'qualifiers']
    elif k == 'param':
        attrs = ['name', 'type', 'reference_class', 'is_array', 'array_size',
                 'qualifiers', 'value', 'value', 'embedded_object']
    elif k == 'meth':
        attrs = ['name', 'qualifiers', 'parameters', 'return_type',
                 'class_origin', 'propagated']
    elif k == 'qual':
        attrs = ['name', 'type', 'value', 'value', 'propagated',
                 'overridable', 'tosubclass', 'toinstance', 'translatable']
    elif k == 'qualdecl':
        attrs = ['name', 'type', 'value', 'is_array', 'array_size', 'scopes',
                 'overridable', 'tosubclass', 'toinstance', 'translatable']
    elif k == 'ncd':
        attrs = ['items']
    else:
        return None
    start = tape.next(len(attrs))
    for i in range(len(attrs)):
        a = attrs[(start + i) % len(attrs)]
        sub = _mutate_attr(node, k, a, sibs, tape)
        if sub:
            return '%s.%s' % (k, a) + ('' if sub is True else ':' + sub)
    return None


def _mutate_attr(node, k, a, sibs, tape):
    # pylint: disable=too-many-return-statements,too-many-branches
    if a in ('classname', 'name'):
        node[a] = _fresh_name(node[a], sibs, tape)
        return True
    if a == 'namespace':
        _m_optname(node, a, tape, _NSS)
        return True
    if a == 'host':
        _m_optname(node, a, tape, _HOSTS)
        return True
    if a in ('superclass', 'class_origin'):
        _m_optname(node, a, tape, _CLSS)
        return True
    if a in ('propagated', 'overridable', 'tosubclass', 'toinstance',
             'translatable'):
        _m_tristate(node, a, tape)
        return True
    if a == 'return_type':
        node[a] = tape.pick([t for t in S.SIMPLE_TYPES if t != node[a]])
        return True
    if a in ('qualifiers', 'properties', 'methods', 'parameters'):
        extra = ()
        if k == 'inst' and a == 'properties' and node.get('path'):
            extra = [n for n, _kt, _v in node['path']['keys']]
        return _m_children(node, a, tape, extra)
    if a == 'path':
        if node.get('path') is None:
            if k == 'inst':
                names = [p['name'] for p in node['properties']]
                node['path'] = {
                    'k': 'ipath', 'classname': node['classname'],
                    'keys': [(_fresh_name('KeyP', names, tape), 'string',
                              'k')],
                    'namespace': None, 'host': None}
            else:
                node['path'] = {'k': 'cpath', 'classname': node['classname'],
                                'namespace': 'root/cimv2', 'host': None}
            return 'set'
        node['path'] = None
        return 'unset'
    if a == 'keys':
        return _m_keys(node, tape)
    if a == 'value':
        return _m_value(node, k, tape)
    if a == 'type':
        return bool(_m_type(node, k, tape))
    if a == 'is_array':
        return bool(_m_is_array(node, k, tape))
    if a == 'array_size':
        return bool(_m_array_size(node, k, tape))
    if a == 'embedded_object':
        return bool(_m_embedded(node, k, tape))
    if a == 'reference_class':
        return bool(_m_refclass(node, k, tape))
    if a == 'scopes':
        sc = list(node['scopes'] or [])
        have = [s for s, _b in sc]
        c = tape.next(3)
        if c == 0 or not sc:
            rest = [s for s in S.SCOPES if s not in have]
            if not rest:
                return None
            sc.append((tape.pick(rest), tape.chance(1, 2)))
            sub = 'add'
        elif c == 1:
            del sc[tape.next(len(sc))]
            sub = 'remove'
        else:
            i = tape.next(len(sc))
            sc[i] = (sc[i][0], not sc[i][1])
            sub = 'flip'
        node['scopes'] = sc
        return sub
    if a == 'items':
        return _m_ncd_items(node, tape)
    raise ValueError(a)


def _m_keys(node, tape):
    keys = list(node['keys'])
    names = [n for n, _kt, _v in keys]
    c = tape.next(6)
    if c == 0 or not keys:
        keys.insert(tape.next(len(keys) + 1),
                    (_fresh_name('NewK', names, tape), 'string', 'v'))
        sub = 'add'
    elif c == 1:
        # removing the last keybinding gives a (legal) keyless path
        del keys[tape.next(len(keys))]
        sub = 'remove'
    elif c == 2:
        i = tape.next(len(keys))
        n, kt, v = keys[i]
        keys[i] = (_fresh_name(n, names, tape), kt, v)
        sub = 'rename'
    else:
        i = tape.next(len(keys))
        n, kt, v = keys[i]
        if c == 3 and kt in ('string', 'reference'):
            # different kind of value
            if kt == 'string':
                keys[i] = (n, 'reference', default_scalar('reference'))
            else:
                keys[i] = (n, 'string', 'plain')
            sub = 'value-kind'
        else:
            keys[i] = (n, kt, other_scalar(kt, v, tape))
            sub = 'value'
    node['keys'] = keys
    return sub


def _m_ncd_items(node, tape):
    items = list(node['items'])
    names = [k for k, _v in items]
    c = tape.next(4)
    if c == 0 or not items:
        items.insert(tape.next(len(items) + 1),
                     (_fresh_name('New', names, tape), ('int', 5)))
        sub = 'add'
    elif c == 1:
        del items[tape.next(len(items))]
        sub = 'remove'
    elif c == 2:
        i = tape.next(len(items))
        items[i] = (_fresh_name(items[i][0], names, tape), items[i][1])
        sub = 'rename'
    else:
        i = tape.next(len(items))
        key, (t, v) = items[i]
        if t == 'obj':
            w = copy.deepcopy(v)
            f = 'classname' if 'classname' in w else 'name'
            w[f] = w[f] + 'X'
            new = (t, w)
        elif t == 'none':
            new = ('int', 0)
        elif t == 'str':
            new = (t, v + 'x')
        elif t == 'bool':
            new = (t, not v)
        elif t == 'dt':
            new = (t, other_dt(v, tape))
        elif t == 'float':
            new = (t, 0.0 if v != 0 else 1.0)
        elif t == 'uint8':
            new = (t, v + 1 if v < 255 else v - 1)
        else:
            new = (t, v + 1)
        items[i] = (key, new)
        sub = 'value'
    node['items'] = items
    return sub


def mutant(r, tape):
    "(single-attribute mutant of recipe r, label) or None"
    if _is_dt(r):
        return other_dt(r, tape), 'datetime.instant'
    for _ in range(4):
        new = copy.deepcopy(r)
        out = []
        nodes(new, out)
        node, sibs = out[0] if tape.chance(1, 2) else tape.pick(out)
        label = mutate_node(node, sibs, tape)
        if label:
            return norm(new), label
    return None


_NUM_ALT = {
    'int': ['uint64', 'sint64', 'uint8', 'sint32', 'float', 'real64',
            'boolean'],
    'float': ['real32', 'real64', 'int'],
    'boolean': ['int', 'float', 'uint8'],
    'char16': ['string'],
    'string': ['char16'],
}


def _key_typevar(kt, v, tape):
    "(ktype, value) of another Python type with (presumably) the same value"
    if kt in S.INT_TYPES:
        alts = ['int'] + [t for t in sorted(S.INT_TYPES) if t != kt] + \
            ['float']
    elif kt in S.REAL_TYPES:
        alts = ['float'] + [t for t in S.REAL_TYPES if t != kt] + ['int']
    else:
        alts = _NUM_ALT.get(kt, [])
    alts = tape.shuffle(alts)
    for t in alts:
        if t in S.INT_TYPES or t == 'int':
            if isinstance(v, bool):
                w = int(v)
            elif isinstance(v, float):
                if v != v or v in (float('inf'), float('-inf')) or \
                        v != int(v):
                    continue
                w = int(v)
            elif isinstance(v, int):
                w = v
            else:
                continue
            lo, hi = S.INT_RANGE[t] if t != 'int' else (-2 ** 63,
                                                        2 ** 64 - 1)
            if lo <= w <= hi:
                return t, w
        elif t in S.REAL_TYPES or t == 'float':
            if isinstance(v, (bool, int, float)) and abs(v) < 2 ** 53:
                return t, float(v)
        elif t == 'boolean':
            if v in (0, 1):
                return t, bool(v)
        elif t == 'char16':
            if isinstance(v, str) and len(v) == 1 and \
                    0x20 <= ord(v) <= 0xFFFD:
                return t, v
        elif t == 'string':
            return t, v
    return None


def typevar(r, tape):
    """
    (variant, label) that differs in the Python type of a value or in None vs
    explicit default only; or None.  Law-only: equality is not asserted.
    """
    if _is_dt(r):
        n = same_instant_dt(r, tape)
        return (n, 'datetime.same-instant') if n is not None else None
    new = copy.deepcopy(r)
    out = []
    nodes(new, out)
    for node, _sibs in tape.shuffle(out):
        k = node['k']
        if k == 'ipath':
            for i in tape.shuffle(range(len(node['keys']))):
                n, kt, v = node['keys'][i]
                if kt == 'datetime':
                    w = same_instant_dt(v, tape)
                    if w is not None:
                        node['keys'][i] = (n, kt, w)
                        return new, 'key.datetime-spelling'
                    continue
                alt = _key_typevar(kt, v, tape)
                if alt:
                    node['keys'][i] = (n,) + alt
                    return new, 'key.%s-as-%s' % (
                        kt if kt not in S.INT_TYPES else 'cimint',
                        alt[0] if alt[0] not in S.INT_TYPES else 'cimint')
        elif k in ('prop', 'param', 'qualdecl'):
            opts = []
            if node['is_array'] is not None and \
                    (node['value'] is not None or node['is_array'] is False):
                opts.append('is_array')
            if k != 'qualdecl' and node['embedded_object'] and \
                    node['value'] not in (None, []):
                v0 = node['value'][0] if isinstance(node['value'], list) \
                    else node['value']
                if isinstance(v0, dict) and (
                        (v0['k'] == 'inst' and
                         node['embedded_object'] == 'instance') or
                        (v0['k'] == 'class' and
                         node['embedded_object'] == 'object')):
                    opts.append('embedded_object')
            if k == 'qualdecl' and not node['scopes']:
                opts.append('scopes')
            if k == 'qualdecl' and node['scopes'] and len(node['scopes']) > 1:
                opts.append('scopes-order')
            if opts:
                o = tape.pick(opts)
                if o == 'scopes':
                    node['scopes'] = [] if node['scopes'] is None else None
                elif o == 'scopes-order':
                    node['scopes'] = list(reversed(node['scopes']))
                else:
                    node[o] = None
                return new, '%s.%s-default' % (k, o)
        elif k == 'ncd':
            for i in tape.shuffle(range(len(node['items']))):
                key, (t, v) = node['items'][i]
                kt = {'int': 'int', 'uint8': 'uint8', 'float': 'float',
                      'bool': 'boolean'}.get(t)
                if kt is None:
                    continue
                alt = _key_typevar(kt, v, tape)
                back = {'int': 'int', 'uint8': 'uint8', 'float': 'float',
                        'boolean': 'bool', 'real64': 'float'}
                if alt and alt[0] in back:
                    node['items'][i] = (key, (back[alt[0]], alt[1]))
                    return new, 'ncd.value-type'
    return None


# Pairs of spellings that are related by a "special" case mapping: equal
# under str.casefold() but not (all of them) under str.lower(), plus plain
# non-ASCII case pairs.  Used for law-only variants: whether two names that
# differ like this are the same CIM name is NOT asserted (DESIGN 2.6), but
# ==, != and hash() must stay consistent with each other for them.
FOLD_PAIRS = [
    ('\u00df', 'SS'), ('\u00df', 'ss'), ('\u1e9e', '\u00df'), ('\u1e9e', 'SS'),
    ('\u017f', 'S'), ('\u017f', 's'),
    ('\u03c2', '\u03a3'), ('\u03c2', '\u03c3'), ('\u03a3', '\u03c3'),
    ('\ufb01', 'FI'), ('\ufb01', 'fi'), ('\ufb00', 'ff'),
    ('\u0130', 'i\u0307'), ('\u01c5', '\u01c4'), ('\u01c5', '\u01c6'),
    ('\u00b5', '\u03bc'), ('\u00b5', '\u039c'), ('\u212a', 'k'),
    ('\u0149', '\u02bcn'),
    ('\u00c4', '\u00e4'), ('\u00c9', '\u00e9'), ('\u03a9', '\u03c9'),
    ('\u0416', '\u0436'), ('\u00d8', '\u00f8'),
]
_FOLD_TOKENS = ['\u00df', '\u017f', '\u03c2', '\ufb01', '\u0130', '\u01c5',
                '\u00b5', '\u1e9e', '\u00c4', '\u03a3', '\u0416', 'Stra\u00dfe',
                '\u039f\u0394\u039f\u03a3x', 'Ma\u017ft']


_FOLD_CHARS = sorted({c for pair in FOLD_PAIRS for side in pair
                       for c in side if not c.isascii()})


def _name_slots(r):
    """
    All name-like attributes in recipe r: list of (get, set, sibling names)
    for classname, superclass, name, class_origin, reference_class,
    namespace, host, keybinding names and NocaseDict keys.
    """
    out = []
    lst = []
    nodes(r, lst)
    for node, sibs in lst:
        k = node['k']
        if k == 'ncd':
            names = [key for key, _v in node['items']]
            for i in range(len(node['items'])):
                out.append((
                    lambda node=node, i=i: node['items'][i][0],
                    lambda v, node=node, i=i: node['items'].__setitem__(
                        i, (v, node['items'][i][1])), names))
            continue
        for f in NAME_FIELDS[k]:
            if isinstance(node.get(f), str):
                out.append((lambda node=node, f=f: node[f],
                            lambda v, node=node, f=f: node.__setitem__(f, v),
                            sibs if f == 'name' else None))
        if k == 'ipath':
            names = [n for n, _kt, _v in node['keys']]
            for i in range(len(node['keys'])):
                out.append((
                    lambda node=node, i=i: node['keys'][i][0],
                    lambda v, node=node, i=i: node['keys'].__setitem__(
                        i, (v,) + tuple(node['keys'][i][1:])), names))
    return out


def fold_inject(r, tape, tries=4):
    "put a special-casing character into some name of r (in place)"
    slots = _name_slots(r)
    if not slots:
        return False
    for _ in range(tries):
        get, put, sibs = tape.pick(slots)
        old = get()
        tok = tape.pick(_FOLD_TOKENS)
        new = old + tok if tape.chance(2, 3) else old[:1] + tok + old[1:]
        if sibs is not None and \
                _folds([new]) & _folds(s for s in sibs if s != old):
            continue
        put(new)
        return True
    return False


def foldvar(r, tape):
    """
    Variant in which one occurrence of one side of a FOLD_PAIRS pair in a
    name-like attribute is replaced by the other side (law-only).  If no
    name contains such a piece, one is injected first.
    """
    new = copy.deepcopy(r)
    for attempt in range(2):
        cands = []
        for get, put, _sibs in _name_slots(new):
            name = get()
            for x, y in FOLD_PAIRS:
                if x in name:
                    cands.append((name, put, x, y))
                if y in name:
                    cands.append((name, put, y, x))
        if cands:
            name, put, x, y = tape.pick(cands)
            put(name.replace(x, y, 1))
            return norm(new), 'fold:%s' % (
                'ascii-to-special' if x.isascii() else
                'special-to-ascii' if y.isascii() else 'special-to-special')
        if attempt == 0 and not fold_inject(new, tape):
            return None
    return None


def specialise(r, seed):
    """
    Post-processing of a generated recipe: sometimes make instance paths
    keyless (CIMInstanceName without keybindings is a legal object) and
    sometimes put special-casing characters into names.
    """
    tape = Tape(seed)
    r = copy.deepcopy(r)
    if tape.chance(1, 3):
        lst = []
        nodes(r, lst)
        paths = [n for n, _s in lst if n['k'] == 'ipath']
        inst_paths = [n['path'] for n, _s in lst
                      if n['k'] == 'inst' and n.get('path')]
        first = True
        for pth in inst_paths + paths:
            # the path of an instance / the outermost path first
            if first or tape.chance(1, 3):
                pth['keys'] = []
            first = False
    if tape.chance(1, 6):
        fold_inject(r, tape)
        if tape.chance(1, 3):
            fold_inject(r, tape)
    return r


OPS = ['same', 'case', 'order', 'caseorder', 'case', 'order', 'typevar',
       'typevar', 'mutant', 'mutant', 'mutant', 'mutant', 'fresh', 'foldvar',
       'foldvar']


def apply_op(r, op, fresh):
    """
    -> (recipe, relation expected between r and result, op name actually
    applied, label)
    """
    name, ints = op
    tape = Tape(ints)
    if name == 'fresh':
        if fresh is not None:
            return norm(fresh), ANY, 'fresh', ''
        name = 'mutant'
    if _is_dt(r) and name in ('case', 'order', 'caseorder', 'foldvar'):
        name = 'typevar'    # a CIMDateTime has no names and no children
    if name == 'foldvar':
        res = foldvar(r, tape)
        if res is not None:
            return res[0], ANY, 'foldvar', res[1]
        name = 'caseorder'
    if name == 'typevar':
        res = typevar(r, tape)
        if res is not None:
            return res[0], ANY, 'typevar', res[1]
        name = 'caseorder'
    if name == 'mutant':
        res = mutant(r, tape)
        if res is not None:
            return res[0], NE, 'mutant', res[1]
        name = 'same'
    if name == 'same' or _is_dt(r):
        return copy.deepcopy(r), EQ, 'same', ''
    case = name in ('case', 'caseorder')
    order = name in ('order', 'caseorder')
    return eqvar(r, tape, case, order), EQ, name, ''


# ---------------------------------------------------------------------------
# strategies

KINDS = ['ipath', 'cpath', 'inst', 'class', 'prop', 'meth', 'param', 'qual',
         'qualdecl', 'datetime', 'ncd']


def ncd_recipe():
    val = st.one_of(
        st.tuples(st.just('str'), S.cim_string(8)),
        st.tuples(st.just('int'), st.one_of(st.sampled_from([0, 1, -1, 255]),
                                            st.integers(-2 ** 63,
                                                        2 ** 64 - 1))),
        st.tuples(st.just('uint8'), S.cim_int('uint8')),
        st.tuples(st.just('float'), S.cim_real('real64', allow_nan=False)),
        st.tuples(st.just('bool'), st.booleans()),
        st.just(('none', None)),
        st.tuples(st.just('dt'), S.datetime_scalar()),
        st.tuples(st.just('obj'), st.one_of(
            S.qualifier(allow_nan=False),
            S.instance_path(depth=1),
            S.cim_property(depth=0, allow_nan=False, quals=False))),
    )
    return st.lists(st.tuples(S.cim_name(), val), max_size=4,
                    unique_by=lambda kv: kv[0].lower()).map(
                        lambda items: {'k': 'ncd', 'items': items})


def _class_with_path():
    return st.builds(lambda c, p: dict(c, path=p),
                     S.cim_class(depth=1, allow_nan=False),
                     st.one_of(st.none(), S.class_path()))


def _param_embedded():
    "CIMParameter with an embedded object value (scalar or array)"
    def mk(p, objs, emb, is_arr, lead_null):
        if emb == 'instance':
            objs = [o for o in objs if o['k'] == 'inst'] or [_emb_inst()]
        v = ([None] if lead_null and is_arr else []) + objs
        return dict(p, type='string', value=v if is_arr else objs[0],
                    is_array=is_arr, array_size=None, reference_class=None,
                    embedded_object=emb)
    obj = st.one_of(S.cim_instance(depth=0, with_path=False, allow_nan=False),
                    S.cim_class(depth=0, small=True, allow_nan=False))
    return st.builds(mk, S.cim_parameter(allow_nan=False, with_value=False),
                     st.lists(obj, min_size=1, max_size=2),
                     st.sampled_from(['instance', 'object']), st.booleans(),
                     st.booleans())


def recipe(kind):
    if kind == 'datetime':
        return _recipe(kind)
    return st.tuples(_recipe(kind), st.integers(0, 2 ** 32)).map(
        lambda t: specialise(t[0], t[1]))


def _recipe(kind):
    if kind == 'ipath':
        return S.instance_path(depth=2)
    if kind == 'cpath':
        return S.class_path()
    if kind == 'inst':
        return st.one_of(S.cim_instance(depth=1, allow_nan=False),
                         S.cim_instance(depth=1, allow_nan=False),
                         S.cim_instance(depth=0, allow_nan=False),
                         S.cim_instance(depth=2, allow_nan=False))
    if kind == 'class':
        return _class_with_path()
    if kind == 'prop':
        return st.one_of(S.cim_property(depth=1, allow_nan=False),
                         S.cim_property(depth=1, allow_nan=False),
                         S.cim_property(depth=2, allow_nan=False))
    if kind == 'meth':
        return S.cim_method(allow_nan=False)
    if kind == 'param':
        return st.one_of(S.cim_parameter(allow_nan=False, with_value=True),
                         S.cim_parameter(allow_nan=False, with_value=True),
                         S.cim_parameter(allow_nan=False, with_value=False),
                         _param_embedded())
    if kind == 'qual':
        return S.qualifier(allow_nan=False)
    if kind == 'qualdecl':
        return S.qualifier_declaration(allow_nan=False)
    if kind == 'datetime':
        return S.datetime_scalar()
    if kind == 'ncd':
        return ncd_recipe()
    raise ValueError(kind)


def _op():
    return st.tuples(st.sampled_from(OPS), st.integers(0, 2 ** 62))


NPAIRS = 4      # (op1, op2) pairs evaluated per generated object


def laws_strategy(kinds):
    def strategy():
        # strategies are built once per kind (building them per example is
        # what costs the time)
        per_kind = {}
        for k in set(kinds):
            per_kind[k] = st.tuples(
                st.just(k), recipe(k),
                st.lists(st.tuples(_op(), _op()), min_size=NPAIRS,
                         max_size=NPAIRS),
                st.one_of(st.none(), st.none(), st.none(), recipe(k)))
        return st.sampled_from(kinds).flatmap(per_kind.__getitem__)
    return strategy


# ---------------------------------------------------------------------------
# laws oracle

def _features(r):
    out = set()
    for x in S.walk(r):
        if isinstance(x, dict):
            if x.get('k') == 'ipath':
                if not x['keys']:
                    out.add('keyless-path')
                for _n, kt, _v in x['keys']:
                    if kt == 'reference':
                        out.add('nested-ref')
                    elif kt in ('int', 'float'):
                        out.add('untyped-number-key')
            elif x.get('k') in ('prop', 'param'):
                v = x['value']
                vs = v if isinstance(v, list) else [v]
                if any(isinstance(e, dict) and e['k'] in ('inst', 'class')
                       for e in vs):
                    out.add('embedded-object')
                if isinstance(v, list) and None in v:
                    out.add('array-with-null')
    if isinstance(r, dict):
        for get, _put, _sibs in _name_slots(r):
            name = get()
            if not name.isascii() and any(t in name for t in _FOLD_CHARS):
                out.add('special-casing-name')
                break
    return out


def _is_incompatible_kinds_typeerror(exc):
    "TypeError raised by a CIM object's __eq__ reached through _eq_item/list"
    if not isinstance(exc, TypeError) or \
            not str(exc).startswith('other must be CIM'):
        return False
    names = [f.name for f in traceback.extract_tb(exc.__traceback__)]
    return '_eq_item' in names


def _cmp(ctx, x, y, kind, neg=False):
    "x == y (or x != y); None if it raised (reported)"
    try:
        return bool(x != y) if neg else bool(x == y)
    except Exception as exc:  # pylint: disable=broad-except
        if _is_incompatible_kinds_typeerror(exc):
            ctx.fail('eq:raises-TypeError-for-incompatible-value-kinds',
                     '%s raised %r\n  x = %r\n  y = %r' %
                     ('!=' if neg else '==', exc, x, y))
        else:
            _fail_exc(ctx, exc, 'eq:raises:' + kind,
                      '%r\n  x = %r\n  y = %r' % (exc, x, y))
        return None


def _fail_exc(ctx, exc, what, detail):
    "ctx.fail_exc, also for exceptions without a pywbem frame"
    if exc_signature(exc) is not None:
        ctx.fail_exc(exc, what)
    else:
        # e.g. "unhashable type" raised by the interpreter
        ctx.fail('%s:%s' % (what, type(exc).__name__), detail)


def _hash(ctx, x, kind):
    try:
        return hash(x)
    except Exception as exc:  # pylint: disable=broad-except
        _fail_exc(ctx, exc, 'hash:raises:' + kind, '%r for %r' % (exc, x))
        return None


def check_laws(ctx, kind, objs, names):
    n = len(objs)
    eq = [[_cmp(ctx, objs[i], objs[j], kind) for j in range(n)]
          for i in range(n)]
    for i in range(n):
        if eq[i][i] is False:
            ctx.fail('eq:not-reflexive:' + kind, repr(objs[i]))
    for i in range(n):
        for j in range(n):
            if eq[i][j] is None:
                continue
            ne = _cmp(ctx, objs[i], objs[j], kind, neg=True)
            if ne is not None and ne == eq[i][j]:
                ctx.fail('ne:not-negation-of-eq:' + kind,
                         '%s == %s is %r and != is %r\n  %r\n  %r' %
                         (names[i], names[j], eq[i][j], ne, objs[i], objs[j]))
            if j > i and eq[j][i] is not None and eq[i][j] != eq[j][i]:
                ctx.fail('eq:asymmetric:' + kind,
                         '%s == %s is %r, swapped %r\n  %r\n  %r' %
                         (names[i], names[j], eq[i][j], eq[j][i], objs[i],
                          objs[j]))
    for i in range(n):
        for j in range(n):
            for k in range(n):
                if len({i, j, k}) == 3 and eq[i][j] and eq[j][k] and \
                        eq[i][k] is False:
                    ctx.fail('eq:intransitive:' + kind,
                             '%s == %s == %s but not %s == %s\n  %r\n  %r\n'
                             '  %r' % (names[i], names[j], names[k], names[i],
                                       names[k], objs[i], objs[j], objs[k]))
    hs = [_hash(ctx, o, kind) for o in objs]
    for i in range(n):
        for j in range(i + 1, n):
            if eq[i][j] and hs[i] is not None and hs[j] is not None:
                if hs[i] != hs[j]:
                    ctx.fail('hash:equal-objects-differ:' + kind,
                             '%s == %s but hashes differ\n  %r\n  %r' %
                             (names[i], names[j], objs[i], objs[j]))
                elif objs[j] not in {objs[i]} or \
                        {objs[i]: 1}.get(objs[j]) != 1:
                    ctx.fail('hash:set-dict-membership:' + kind,
                             '%r\n  %r' % (objs[i], objs[j]))
    return eq


def _expect(ctx, kind, rel, opname, label, got, x, y, r, op):
    if got is None or rel == ANY:
        return
    if rel == EQ and not got:
        what = opname
        if opname == 'caseorder':
            # name the cause
            for nm, (c, o) in (('case', (True, False)),
                               ('order', (False, True))):
                v = build(eqvar(r, Tape(op[1]), c, o))
                try:
                    if not x == v:
                        what = nm
                        break
                except Exception:  # pylint: disable=broad-except
                    pass
        ctx.fail('eq:%s-variant-unequal:%s' % (
            {'same': 'identical', 'caseorder': 'case+order'}.get(what, what),
            kind), '%r\n  %r' % (x, y))
    elif rel == NE and got:
        ctx.fail('eq:mutant-equal:' + label.split(':')[0],
                 'mutation %s is not distinguished by ==\n  %r\n  %r' %
                 (label, x, y))


def laws_oracle(ctx, ex):
    kind, ra, pairs, fresh = ex
    ra = norm(ra)
    feats = ['has:' + f for f in sorted(_features(ra))]
    for op1, op2 in pairs:
        rb, rel_ab, n1, l1 = apply_op(ra, op1, fresh)
        rc, rel_bc, n2, l2 = apply_op(rb, op2, None)
        a, a2, b, c = build(ra), build(ra), build(rb), build(rc)
        eq = check_laws(ctx, kind, [a, a2, b, c], ['a', "a'", 'b', 'c'])
        _expect(ctx, kind, EQ, 'same', '', eq[0][1], a, a2, ra, op1)
        _expect(ctx, kind, rel_ab, n1, l1, eq[0][2], a, b, ra, op1)
        _expect(ctx, kind, rel_bc, n2, l2, eq[2][3], b, c, rb, op2)
        classes = ['kind:' + kind, 'op1:' + n1, 'op2:' + n2,
                   'ab:' + ('raised' if eq[0][2] is None else
                            'equal' if eq[0][2] else 'unequal'),
                   'ac:' + ('raised' if eq[0][3] is None else
                            'equal' if eq[0][3] else 'unequal')]
        for lab in (l1, l2):
            if lab:
                classes.append('label:' + lab)
        classes.extend(feats)
        # one evaluation = one triple
        ctx.case(key=(kind, ra, op1, op2, fresh if n1 == 'fresh' else None),
                 nontrivial=n1 in ('case', 'order', 'caseorder', 'typevar',
                                   'foldvar',
                                   'mutant'), classes=classes)


# ---------------------------------------------------------------------------
# copies

METHODS = ['copy()', 'copy.copy', 'deepcopy', 'pickle0', 'pickle2', 'pickleH']


def do_copy(x, method):
    if method == 'copy()':
        return x.copy()
    if method == 'copy.copy':
        return copy.copy(x)
    if method == 'deepcopy':
        return copy.deepcopy(x)
    proto = {'pickle0': 0, 'pickle2': 2,
             'pickleH': pickle.HIGHEST_PROTOCOL}[method]
    return pickle.loads(pickle.dumps(x, proto))


def _first(d):
    for k in d.keys():
        return k
    return None


def _valid_value(y):
    "a valid other value for a live CIMProperty/CIMParameter/CIMQualifier..."
    if y.value is not None:
        return None
    t = y.type
    if getattr(y, 'embedded_object', None):
        v = CIMInstance('MutE')
    elif t == 'reference':
        v = CIMInstanceName('MutR', {'k': 'v'})
    elif t == 'datetime':
        v = CIMDateTime('20200101000000.000000+000')
    else:
        v = {'boolean': True, 'string': 'mutval', 'char16': 'm'}.get(
            t, 1)
    is_arr = getattr(y, 'is_array', False)
    return [v] if is_arr else v


def _obj_in_value(v):
    "first mutable CIM object in a value (scalar or list) or None"
    for e in (v if isinstance(v, list) else [v]):
        if isinstance(e, (CIMInstanceName, CIMInstance, CIMClass,
                          CIMClassName)):
            return e
    return None


def _child_ops(coll, mk, label):
    "dictionary-level operations on a child dictionary"
    ops = [('dict-' + label + '-add', lambda: coll.__setitem__(
        'MutNew', mk('MutNew')))]
    k = _first(coll)
    if k is not None:
        ops.append(('dict-' + label + '-del', lambda: coll.__delitem__(k)))
        ops.append(('dict-' + label + '-replace',
                    lambda: coll.__setitem__(k, mk(k))))
    return ops


def _flag_flip(o, attr):
    setattr(o, attr, not getattr(o, attr))


def live_ops(kind, y):
    """
    All mutation operations applicable to the live object y:
    list of (label, depth class, thunk).  Depth classes:
      rebind  attribute of y set to a new value
      dict    change of a child dictionary of y (add/delete/replace an item)
      list    in-place change of an array value list of y
      path    in-place change of y.path (CIMInstance, CIMClass)
      valobj  in-place change of a mutable object that is (in) y.value
      child   in-place change of a child object in a dictionary of y, or of
              a keybinding value object
    """
    # pylint: disable=too-many-branches,too-many-statements
    ops = []

    def rebind(attr, val):
        ops.append(('rebind-' + attr, 'rebind',
                    lambda: setattr(y, attr, val)))

    def add(depth, lst):
        ops.extend((lab, depth, th) for lab, th in lst)

    def mkq(n):
        return CIMQualifier(n, 'mut')

    def mkp(n):
        return CIMProperty(n, 'mut')

    if kind in ('ipath', 'cpath'):
        rebind('classname', 'Mut_C')
        rebind('namespace', 'mut/ns')
        rebind('host', 'muthost')
    if kind == 'ipath':
        rebind('keybindings', {'MutK': 'v'})
        add('dict', _child_ops(y.keybindings, lambda n: 'mut', 'keybindings'))
        ops.append(('dict-keybindings-setitem', 'dict',
                    lambda: y.__setitem__('MutK2', Uint8(1))))
        for v in y.keybindings.values():
            if isinstance(v, CIMInstanceName):
                ops.append(('child-keyref-attr', 'child',
                            lambda v=v: setattr(v, 'classname', 'Mut_Ref')))
                break
    elif kind == 'inst':
        rebind('classname', 'Mut_C')
        rebind('path', None if y.path is not None else
               CIMInstanceName('Mut', {'a': 'b'}))
        rebind('properties', [CIMProperty('MutP', 'v')])
        rebind('qualifiers', [CIMQualifier('MutQ', True)])
        add('dict', _child_ops(y.properties, mkp, 'properties'))
        add('dict', _child_ops(y.qualifiers, mkq, 'qualifiers'))
        ops.append(('dict-properties-setitem', 'dict',
                    lambda: y.__setitem__('MutNew2', 'v')))
        ops.append(('dict-properties-update', 'dict',
                    lambda: y.update({'MutU': 'v'})))
        if y.path is not None:
            p = y.path
            ops.append(('path-classname', 'path',
                        lambda: setattr(p, 'classname', 'MutPC')))
            ops.append(('path-namespace', 'path',
                        lambda: setattr(p, 'namespace', 'mut/pns')))
            ops.append(('path-host', 'path',
                        lambda: setattr(p, 'host', 'mutph')))
            ops.append(('path-keybindings', 'path',
                        lambda: p.keybindings.__setitem__('MutPK', 'v')))
            pk = _first(p.keybindings)
            if pk is not None:
                ops.append(('path-keybindings-del', 'path',
                            lambda: p.keybindings.__delitem__(pk)))
    elif kind == 'class':
        rebind('classname', 'Mut_C')
        rebind('superclass', 'Mut_Super')
        rebind('path', None if y.path is not None else CIMClassName('Mut'))
        rebind('properties', [CIMProperty('MutP', 'v')])
        rebind('methods', [CIMMethod('MutM', 'uint8')])
        rebind('qualifiers', [])
        add('dict', _child_ops(y.properties, mkp, 'properties'))
        add('dict', _child_ops(y.methods, lambda n: CIMMethod(n, 'string'),
                               'methods'))
        add('dict', _child_ops(y.qualifiers, mkq, 'qualifiers'))
        if y.path is not None:
            p = y.path
            ops.append(('path-classname', 'path',
                        lambda: setattr(p, 'classname', 'MutPC')))
            ops.append(('path-host', 'path',
                        lambda: setattr(p, 'host', 'mutph')))
    elif kind in ('prop', 'param'):
        rebind('name', 'MutName')
        rebind('value', _valid_value(y))
        rebind('array_size', 5 if y.array_size is None else None)
        rebind('qualifiers', [CIMQualifier('MutQ', True)])
        if kind == 'prop':
            rebind('class_origin', 'Mut_CO')
            rebind('propagated', not y.propagated)
        if y.type == 'reference':
            rebind('reference_class', 'Mut_RC')
        add('dict', _child_ops(y.qualifiers, mkq, 'qualifiers'))
    elif kind == 'meth':
        rebind('name', 'MutName')
        rebind('return_type', 'uint16' if y.return_type != 'uint16'
               else 'string')
        rebind('class_origin', 'Mut_CO')
        rebind('propagated', not y.propagated)
        rebind('parameters', [CIMParameter('MutPa', 'string')])
        rebind('qualifiers', [])
        add('dict', _child_ops(y.parameters,
                               lambda n: CIMParameter(n, 'uint8'),
                               'parameters'))
        add('dict', _child_ops(y.qualifiers, mkq, 'qualifiers'))
    elif kind in ('qual', 'qualdecl'):
        rebind('name', 'MutName')
        rebind('value', _valid_value(y))
        for f in ('overridable', 'tosubclass', 'toinstance', 'translatable'):
            rebind(f, not getattr(y, f))
        if kind == 'qual':
            rebind('propagated', not y.propagated)
        else:
            rebind('scopes', {'ANY': True})
            rebind('array_size', 5 if y.array_size is None else None)
            add('dict', _child_ops(y.scopes, lambda n: True, 'scopes'))
    elif kind == 'ncd':
        add('dict', _child_ops(y, lambda n: 'mut', 'items'))
        ops.append(('dict-items-update', 'dict',
                    lambda: y.update({'MutU': 1})))
        ops.append(('dict-items-clear', 'dict', y.clear))
        for v in y.values():
            if isinstance(v, CIMInstanceName):
                ops.append(('child-value-attr', 'child',
                            lambda v=v: setattr(v, 'classname', 'Mut_V')))
                break
            if isinstance(v, (CIMQualifier, CIMProperty)):
                ops.append(('child-value-attr', 'child',
                            lambda v=v: setattr(v, 'name', 'Mut_V')))
                break
    # array value lists and value objects
    if kind in ('prop', 'param', 'qual', 'qualdecl'):
        v = y.value
        if isinstance(v, list):
            ops.append(('list-value-append', 'list', lambda: v.append(None)))
            if v:
                ops.append(('list-value-pop', 'list', v.pop))
                ops.append(('list-value-setitem', 'list',
                            lambda: v.__setitem__(0, None)))
        o = _obj_in_value(v)
        if o is not None:
            ops.append(('valobj-classname', 'valobj',
                        lambda: setattr(o, 'classname', 'Mut_VO')))
            if isinstance(o, CIMInstanceName):
                ops.append(('valobj-keybindings', 'valobj',
                            lambda: o.keybindings.__setitem__('MutVK', 'v')))
            elif isinstance(o, (CIMInstance, CIMClass)):
                ops.append(('valobj-properties', 'valobj',
                            lambda: o.properties.__setitem__(
                                'MutVP', CIMProperty('MutVP', 'v'))))
    # child objects in dictionaries
    for attr, field, val in (('properties', 'class_origin', 'Mut_CCO'),
                             ('qualifiers', 'tosubclass', None),
                             ('methods', 'return_type', 'sint8'),
                             ('parameters', 'array_size', 77)):
        if kind in CHILD_LISTS and attr in CHILD_LISTS[kind]:
            coll = getattr(y, attr)
            ck = _first(coll)
            if ck is not None:
                ch = coll[ck]
                if val is None:
                    ops.append(('child-%s-%s' % (attr, field), 'child',
                                lambda ch=ch, field=field:
                                _flag_flip(ch, field)))
                else:
                    ops.append(('child-%s-%s' % (attr, field), 'child',
                                lambda ch=ch, field=field, val=val:
                                setattr(ch, field, val)))
                if attr == 'properties' and isinstance(ch.value, list):
                    ops.append(('child-properties-value-list', 'child',
                                lambda ch=ch: ch.value.append(None)))
    return ops


# which depth classes each copy method promises to be independent in
DEPTHS = {
    'copy.copy': {'rebind'},
    'copy()': {'rebind', 'dict', 'list', 'path', 'valobj'},
    'deepcopy': {'rebind', 'dict', 'list', 'path', 'valobj', 'child'},
}
for _m in ('pickle0', 'pickle2', 'pickleH'):
    DEPTHS[_m] = DEPTHS['deepcopy']


def allowed_ops(kind, method, y):
    depths = DEPTHS[method]
    out = []
    for lab, depth, th in live_ops(kind, y):
        if depth not in depths:
            continue
        if kind == 'ncd' and method == 'copy.copy':
            continue     # a shallow copy shares the item storage
        # the deeper operations are the rarer and more interesting ones
        out.extend([(lab, depth, th)] *
                   {'rebind': 1, 'dict': 2}.get(depth, 5))
    return out


def copies_strategy():
    per_kind = {}
    for k in KINDS:
        per_kind[k] = st.tuples(
            st.just(k), recipe(k),
            st.lists(st.tuples(
                st.sampled_from(METHODS),
                st.lists(st.integers(0, 2 ** 30 - 1), min_size=0,
                         max_size=4)), min_size=3, max_size=3),
            _op())
    return st.sampled_from(KINDS).flatmap(per_kind.__getitem__)


def copies_oracle(ctx, ex):
    kind, r, runs, op = ex
    r = norm(r)
    # diversify: sometimes copy a variant/mutant instead of the raw recipe
    if op[0] in ('mutant', 'caseorder'):
        r = apply_op(r, op, None)[0]
    feats = ['has:' + f for f in sorted(_features(r))
             if f in ('keyless-path', 'special-casing-name')]
    for method, steps in runs:
        # one evaluation = one (object, copy method, mutation steps)
        _one_copy(ctx, kind, r, method, steps, feats)


def _one_copy(ctx, kind, r, method, steps, feats=()):
    # pylint: disable=too-many-branches,too-many-statements
    x = build(r)
    ref = dump(x)
    classes = ['kind:' + kind, 'method:' + method] + list(feats)
    key = (kind, r, method, steps)
    applied = 0
    has_copy = kind != 'datetime' or method != 'copy()'
    if not has_copy:
        # CIMDateTime has no copy() method; its copy constructor is the
        # documented way ("Another CIMDateTime object will be copied")
        y = CIMDateTime(x)
    else:
        try:
            y = do_copy(x, method)
        except Exception as exc:  # pylint: disable=broad-except
            _fail_exc(ctx, exc, 'copy:%s:raises:%s' % (method, kind),
                      '%r for %r' % (exc, x))
            ctx.case(key=key, nontrivial=False, classes=classes)
            return
    tag = method if has_copy else 'constructor'
    same_type = type(y) is type(x)
    if not same_type:
        ctx.fail('copy:%s:type-changed:%s' % (tag, kind),
                 '%r -> %r; hash(copy): %s' % (type(x), type(y),
                                               _try_hash(y)))
    e1 = _cmp(ctx, x, y, kind)
    e2 = _cmp(ctx, y, x, kind)
    if e1 is False or e2 is False:
        ctx.fail('copy:%s:not-equal:%s' % (tag, kind),
                 '%r\n  copy: %r' % (x, y))
    elif same_type:
        hx = _hash(ctx, x, kind)
        hy = _hash(ctx, y, kind)
        if hx is not None and hy is not None and hx != hy:
            ctx.fail('copy:%s:hash-differs:%s' % (tag, kind),
                     '%r\n  copy: %r' % (x, y))
    if y is x and kind != 'datetime':
        ctx.fail('copy:%s:same-object:%s' % (tag, kind), repr(x))
    if dump(x) != ref:
        ctx.fail('copy:%s:changes-original:%s' % (tag, kind),
                 '%r\n  -> %r' % (ref, dump(x)))
    elif y is not x:
        for s in steps:
            ops = allowed_ops(kind, method, y)
            if not ops:
                break
            lab, depth, thunk = ops[s % len(ops)]
            thunk()
            applied += 1
            classes.append('mut:' + depth)
            now = dump(x)
            if now != ref:
                # one root cause per (copy method, class, what is shared)
                # (labels are '<depth>-<attribute>[-<operation>]')
                what = depth if depth in ('valobj', 'list', 'path') else \
                    '-'.join(lab.split('-')[:2])
                ctx.fail('indep:%s:%s:%s' % (tag, kind, what),
                         'after %s on the copy the original changed\n  '
                         'before: %r\n  after:  %r' % (lab, ref, now))
                break
        else:
            x2 = build(r)
            if _cmp(ctx, x, x2, kind) is False:
                ctx.fail('indep:%s:%s:original-not-equal-to-rebuild' %
                         (tag, kind), '%r\n  %r' % (x, x2))
    classes.append('steps:%d' % applied)
    ctx.case(key=key, nontrivial=applied > 0 or kind == 'datetime',
             classes=classes)


def _try_hash(y):
    try:
        return 'ok (%d)' % hash(y)
    except Exception as exc:  # pylint: disable=broad-except
        return 'raises %r' % (exc,)


# ---------------------------------------------------------------------------
# sequences: observe - modify in place - observe again, on ONE object
#
# The eq_* and copies sub-checks build every object freshly and hash it once.
# Here one object (and up to two copies derived from it on the way, which
# share children with it to the documented extent) lives through a short
# history of observations (hash(), set/dict membership, ==, repr) and of
# in-place modifications through the public routes, at every nesting level.
# Oracle: observers are pure.  The same history WITHOUT the observations is
# run on a second, freshly built object (the "twin", which is never hashed or
# compared before the check); afterwards both must have the same state, be
# equal (both directions), have the same hash value and be one set member /
# dictionary key.

_CIM_OBJ = (CIMInstanceName, CIMClassName, CIMInstance, CIMClass, CIMProperty,
            CIMMethod, CIMParameter, CIMQualifier, CIMQualifierDeclaration)
_DICT_ATTRS = [
    (CIMInstanceName, ('keybindings',)),
    (CIMInstance, ('properties', 'qualifiers')),
    (CIMClass, ('properties', 'methods', 'qualifiers')),
    (CIMProperty, ('qualifiers',)),
    (CIMParameter, ('qualifiers',)),
    (CIMMethod, ('parameters', 'qualifiers')),
    (CIMQualifierDeclaration, ('scopes',)),
]
_MAKERS = {
    'keybindings': lambda n: 'mut',
    'items': lambda n: 'mut',
    'scopes': lambda n: True,
    'properties': lambda n: CIMProperty(n, 'mut'),
    'qualifiers': lambda n: CIMQualifier(n, 'mut'),
    'methods': lambda n: CIMMethod(n, 'string'),
    'parameters': lambda n: CIMParameter(n, 'uint8'),
}


def live_tree(root, maxdepth=3, fanout=2):
    """
    The CIM objects and child dictionaries reachable from the live object
    root: (objs, dicts) with objs = [(label, object, level)] and dicts =
    [(label, role, dictionary, level)]; level 0 = root / its own
    dictionaries.  Only the first `fanout` items of each dictionary are
    followed.
    """
    objs, dicts = [], []

    def visit(o, lab, lvl):
        if isinstance(o, _BaseNocaseDict):
            dicts.append((lab + 'items', 'items', o, lvl))
            for v in list(o.values())[:fanout]:
                if isinstance(v, _CIM_OBJ):
                    visit(v, lab + 'items[].', lvl + 1)
            return
        objs.append((lab, o, lvl))
        if lvl >= maxdepth:
            return
        for cls, attrs in _DICT_ATTRS:
            if isinstance(o, cls):
                for attr in attrs:
                    d = getattr(o, attr)
                    dicts.append((lab + attr, attr, d, lvl))
                    for v in list(d.values())[:fanout]:
                        if isinstance(v, _CIM_OBJ):
                            visit(v, lab + attr + '[].', lvl + 1)
        if isinstance(o, (CIMInstance, CIMClass)) and o.path is not None:
            visit(o.path, lab + 'path.', lvl + 1)
        if isinstance(o, (CIMProperty, CIMParameter)):
            vo = _obj_in_value(o.value)
            if vo is not None:
                visit(vo, lab + 'value.', lvl + 1)

    visit(root, '', 0)
    return objs, dicts


def _dict_api_ops(d, role, lab, lvl):
    "all modifying methods of a child dictionary (not only those with a key)"
    mk = _MAKERS[role]
    pre = '' if lvl == 0 else 'deep-'
    ops = []
    if len(d):
        k = _first(d)
        ops += [
            (lab + '.popitem', pre + 'nokey', d.popitem),
            (lab + '.clear', pre + 'nokey', d.clear),
            (lab + '.pop', pre + 'dictapi', lambda: d.pop(k)),
            (lab + '.delitem', pre + 'dictapi', lambda: d.__delitem__(k)),
            (lab + '.replace', pre + 'dictapi',
             lambda: d.__setitem__(k, mk(k))),
            (lab + '.setdefault-existing', pre + 'dictapi',
             lambda: d.setdefault(k, mk(k))),
        ]
    ops += [
        (lab + '.setitem', pre + 'dictapi',
         lambda: d.__setitem__('MutSI', mk('MutSI'))),
        (lab + '.setdefault', pre + 'dictapi',
         lambda: d.setdefault('MutSD', mk('MutSD'))),
        (lab + '.update-dict', pre + 'dictapi',
         lambda: d.update({'MutU': mk('MutU')})),
        (lab + '.update-kw', pre + 'dictapi',
         lambda: d.update(MutKw=mk('MutKw'))),
        (lab + '.update-pairs', pre + 'dictapi',
         lambda: d.update([('MutUp', mk('MutUp'))])),
    ]
    return ops


def _nested_attr_ops(o, lab):
    "attribute assignments on a nested object (held by a dictionary/value)"
    ops = []

    def name(attr, base):
        cur = getattr(o, attr)
        new = base if (cur or '').lower() != base.lower() else base + '2'
        ops.append((lab + attr, 'deep-attr', lambda: setattr(o, attr, new)))

    def flip(attr):
        ops.append((lab + attr, 'deep-attr', lambda: _flag_flip(o, attr)))

    def value():
        # NULL <-> a valid value of the type
        ops.append((lab + 'value', 'deep-attr',
                    lambda: setattr(o, 'value', _valid_value(o))))

    if isinstance(o, CIMInstanceName):
        name('classname', 'Mut_DC')
        name('namespace', 'mut/dns')
        name('host', 'mutdh')
    elif isinstance(o, CIMClassName):
        name('classname', 'Mut_DC')
        name('host', 'mutdh')
    elif isinstance(o, (CIMInstance, CIMClass)):
        name('classname', 'Mut_DC')
    elif isinstance(o, CIMProperty):
        value()
        name('class_origin', 'Mut_DCO')
        flip('propagated')
        ops.append((lab + 'array_size', 'deep-attr', lambda: setattr(
            o, 'array_size', 9 if o.array_size is None else None)))
    elif isinstance(o, CIMParameter):
        value()
        ops.append((lab + 'array_size', 'deep-attr', lambda: setattr(
            o, 'array_size', 9 if o.array_size is None else None)))
    elif isinstance(o, CIMMethod):
        ops.append((lab + 'return_type', 'deep-attr', lambda: setattr(
            o, 'return_type',
            'sint16' if o.return_type != 'sint16' else 'uint8')))
        name('class_origin', 'Mut_DCO')
        flip('propagated')
    elif isinstance(o, CIMQualifier):
        value()
        flip('tosubclass')
        flip('propagated')
    return ops


_SEQ_WEIGHT = {'rebind': 1, 'dict': 2, 'list': 3, 'path': 4, 'valobj': 4,
               'child': 4, 'nokey': 8, 'dictapi': 1, 'deep-nokey': 4,
               'deep-dictapi': 1, 'deep-attr': 3}
# mutations that do not go through a dictionary/attribute of the object
# itself but change something it holds (only) by reference
_NESTED = ('path', 'valobj', 'child', 'deep-nokey', 'deep-dictapi',
           'deep-attr')


def seq_ops(kind, y):
    """
    Modification operations for the sequences sub-check: those of live_ops()
    (all depth classes) plus, at every nesting level, all modifying methods
    of the child dictionaries and attribute assignments on nested objects.
    """
    objs, dicts = live_tree(y)
    ops = list(live_ops(kind, y))
    for lab, role, d, lvl in dicts:
        ops.extend(_dict_api_ops(d, role, lab, lvl))
    for lab, o, lvl in objs:
        if lvl > 0:
            ops.extend(_nested_attr_ops(o, lab))
    out = []
    for op in ops:
        out.extend([op] * _SEQ_WEIGHT[op[1]])
    return out


SEQ_KINDS = [k for k in KINDS if k != 'datetime']    # immutable
PRE = ['hash', 'set', 'dict', 'parts', 'eq', 'repr', 'none', 'hash']
_HASHING = ('hash', 'set', 'dict', 'parts')
MAX_WORLD = 3


def seq_strategy():
    mut = st.tuples(st.integers(0, MAX_WORLD - 1),
                    st.integers(0, 2 ** 30 - 1))
    derive = st.one_of(
        st.none(), st.none(),
        st.tuples(st.sampled_from(METHODS), st.integers(0, MAX_WORLD - 1)))
    rnd = st.tuples(derive, st.lists(mut, min_size=1, max_size=3),
                    st.sampled_from(['full', 'full', 'eq']))
    per_kind = {}
    for k in SEQ_KINDS:
        per_kind[k] = st.tuples(
            st.just(k), recipe(k), st.sampled_from(PRE),
            st.lists(rnd, min_size=1, max_size=3))
    return st.sampled_from(SEQ_KINDS).flatmap(per_kind.__getitem__)


def _observe(ctx, kind, x, how, r):
    "pure observations of the live object x"
    if how == 'hash':
        _hash(ctx, x, kind)
    elif how == 'set':
        try:
            if x not in {x}:
                ctx.fail('seq:not-member-of-own-set:' + kind, repr(x))
        except Exception as exc:  # pylint: disable=broad-except
            _fail_exc(ctx, exc, 'hash:raises:' + kind, '%r for %r' % (exc, x))
    elif how == 'dict':
        try:
            if {x: 1}.get(x) != 1:
                ctx.fail('seq:not-key-of-own-dict:' + kind, repr(x))
        except Exception as exc:  # pylint: disable=broad-except
            _fail_exc(ctx, exc, 'hash:raises:' + kind, '%r for %r' % (exc, x))
    elif how == 'eq':
        other = build(r)
        _cmp(ctx, x, other, kind)
        _cmp(ctx, other, x, kind, neg=True)
    elif how == 'parts':
        objs, dicts = live_tree(x)
        for _lab, o, _lvl in objs:
            _hash(ctx, o, kind)
        for _lab, _role, d, _lvl in dicts:
            _hash(ctx, d, kind)
    elif how == 'repr':
        repr(x)


def _seq_round(kind, world, rnd, trace, expect=None):
    """
    Apply the derivation and the mutations of one round to the world (list
    of live objects).  The labels of what was applied are appended to trace;
    with expect (the trace of the observed run) a deviation returns False.
    """
    derive, muts, _mode = rnd
    if derive is not None and len(world) < MAX_WORLD:
        method, src = derive
        if kind == 'ncd' and method == 'copy.copy':
            method = 'copy()'    # a shallow copy shares the item storage
        # Child dictionaries are created lazily on the first read access, so
        # whether copy.copy() shares an (empty) child dictionary depends on
        # whether it was ever read.  That is not promised either way: read
        # them all (in both runs) before copying
        live_tree(world[src % len(world)])
        world.append(do_copy(world[src % len(world)], method))
        trace.append(('derive', src % len(world[:-1]), method))
    for t, s in muts:
        i = t % len(world)
        ops = seq_ops(kind, world[i])
        if not ops:
            continue
        lab, depth, thunk = ops[s % len(ops)]
        if expect is not None and (len(trace) >= len(expect) or
                                   expect[len(trace)] != (depth, i, lab)):
            return False
        thunk()
        trace.append((depth, i, lab))
    return True


def seq_oracle(ctx, ex):
    # pylint: disable=too-many-locals,too-many-branches,too-many-statements
    kind, r, pre, rounds = ex
    r = norm(r)
    classes = ['kind:' + kind, 'pre:' + pre, 'rounds:%d' % len(rounds)]
    world = [build(r)]
    _observe(ctx, kind, world[0], pre, r)
    hashed = [pre in _HASHING]      # per world object: hashed at some time
    observed = pre != 'none'
    trace = []
    after_obs = 0
    ok = True
    for ri, rnd in enumerate(rounds):
        n0 = len(trace)
        nworld = len(world)
        try:
            _seq_round(kind, world, rnd, trace)
        except Exception as exc:  # pylint: disable=broad-except
            if len(world) > nworld or rnd[0] is None or \
                    exc_signature(exc) is None:
                raise
            # the derivation (copy) itself failed
            ctx.fail_exc(exc, 'seq:copy-raises:' + kind)
            break
        if len(world) > nworld:
            hashed.append(hashed[trace[n0][1]])
            classes.append('derive:' + trace[n0][2] +
                           (':of-hashed' if hashed[-1] else ''))
        applied = [t for t in trace[n0:] if t[0] != 'derive']
        for depth, i, _lab in applied:
            classes.append('mut:' + depth)
            if hashed[i]:
                classes.append('hashed-then:' + depth)
            if observed:
                after_obs += 1
        mode = 'full' if ri == len(rounds) - 1 else rnd[2]
        classes.append('check:' + mode)
        # the twin: same history up to here, never observed
        twin = [build(r)]
        ttrace = []
        same = True
        for rnd2 in rounds[:ri + 1]:
            if not _seq_round(kind, twin, rnd2, ttrace, expect=trace):
                same = False
                break
        hist = 'pre-observation %s, then %r' % (pre, trace)
        if not same or ttrace != trace or len(twin) != len(world):
            ctx.fail('seq:observing-changes-state:' + kind,
                     'the unobserved twin offers other operations\n  %s\n  '
                     'twin: %r' % (hist, ttrace))
            break
        group = 'nested' if any(t[0] in _NESTED for t in applied) else 'own'
        for i, (x, t) in enumerate(zip(world, twin)):
            who = 'object' if i == 0 else 'derived copy %d' % i
            dx, dt_ = dump(x), dump(t)
            if dx != dt_:
                ctx.fail('seq:observing-changes-state:' + kind,
                         '%s: %s\n  observed: %r\n  twin:     %r' %
                         (who, hist, dx, dt_))
                ok = False
                break
            e1 = _cmp(ctx, x, t, kind)
            e2 = _cmp(ctx, t, x, kind)
            if e1 is False or e2 is False:
                ctx.fail('seq:not-equal-to-unobserved-twin:' + kind,
                         '%s: %s\n  %r\n  twin: %r' % (who, hist, x, t))
                continue
            if _cmp(ctx, x, t, kind, neg=True):
                ctx.fail('ne:not-negation-of-eq:' + kind,
                         '%s: %s\n  %r\n  twin: %r' % (who, hist, x, t))
            if mode != 'full' or e1 is None or e2 is None:
                continue
            hx = _hash(ctx, x, kind)
            ht = _hash(ctx, t, kind)
            hashed[i] = True
            if hx is None or ht is None:
                continue
            if hx != ht:
                ctx.fail('seq:hash-stale:%s:%s' % (group, kind),
                         '%s == its never-hashed twin but the hashes differ'
                         '\n  %s\n  %r' % (who, hist, x))
            elif t not in {x} or {x: 1}.get(t) != 1:
                ctx.fail('seq:set-dict-membership:' + kind,
                         '%s: %s\n  %r' % (who, hist, x))
        if not ok:
            break
        observed = True
    classes.append('world:%d' % len(world))
    ctx.case(key=(kind, r, pre, rounds), nontrivial=after_obs > 0,
             classes=classes)


# ---------------------------------------------------------------------------

SUBCHECKS = [
    Sub('eq_paths', strategy=laws_strategy(['ipath', 'ipath', 'cpath']),
        oracle=laws_oracle, quick=(8, 1000), thorough=(16, 30000)),
    Sub('eq_elements',
        strategy=laws_strategy(['prop', 'prop', 'param', 'meth', 'qual',
                                'qualdecl']),
        oracle=laws_oracle, quick=(12, 800), thorough=(16, 30000)),
    Sub('eq_objects', strategy=laws_strategy(['inst', 'class']),
        oracle=laws_oracle, quick=(16, 300), thorough=(16, 15000)),
    Sub('eq_misc', strategy=laws_strategy(['datetime', 'ncd']),
        oracle=laws_oracle, quick=(4, 1200), thorough=(8, 30000)),
    Sub('copies', strategy=copies_strategy, oracle=copies_oracle,
        quick=(12, 1000), thorough=(16, 40000)),
    Sub('sequences', strategy=seq_strategy, oracle=seq_oracle,
        quick=(8, 500), thorough=(16, 20000)),
]
