"""
A scripted HTTP server on a loopback socket (C02 'rawhttp' sub-check): what
requests/urllib3/http.client make of the bytes of a real connection cannot be
reached through the in-process transport adapter (xmlserver.ScriptedAdapter
fabricates the response object after that stack).  The server reads one
request per connection, writes the bytes the current script says, and closes.

Script = dict of plain data (see assemble()):
  prefix        bytes sent before the status line (interim responses, junk)
  status_line   bytes without CRLF
  headers       list of (name, value) bytes pairs, sent as 'name: value'
  raw_headers   list of complete raw header lines (bytes, without CRLF)
  many          number of additional X-Hn header fields
  long          size of one additional very long header field value (0 = none)
  eol           line terminator for the head (b'\r\n', b'\n', b'\r')
  framing       'length' | 'none' | 'short' | 'long' | 'garbage' | 'two' |
                'chunked' | 'chunked-badsize' | 'chunked-noterm' |
                'chunked-trailer' | 'chunked+length'
  body          bytes
  cut           None or number of bytes of the whole response after which the
                connection is closed
  close_early   close the connection without reading the request
"""

import socket
import threading


def assemble(script):
    "bytes of the whole response"
    eol = script.get('eol', b'\r\n')
    body = script.get('body', b'')
    lines = [script.get('status_line', b'HTTP/1.1 200 OK')]
    for name, value in script.get('headers', ()):
        lines.append(name + b': ' + value)
    for raw in script.get('raw_headers', ()):
        lines.append(raw)
    for i in range(script.get('many', 0)):
        lines.append(b'X-H%d: v' % i)
    if script.get('long', 0):
        lines.append(b'X-Long: ' + b'a' * script['long'])
    framing = script.get('framing', 'length')
    payload = body
    if framing == 'length':
        lines.append(b'Content-Length: %d' % len(body))
    elif framing == 'short':
        lines.append(b'Content-Length: %d' % max(0, len(body) - 7))
    elif framing == 'long':
        lines.append(b'Content-Length: %d' % (len(body) + 50))
    elif framing == 'garbage':
        lines.append(b'Content-Length: ' + script.get('cl', b'abc'))
    elif framing == 'two':
        lines.append(b'Content-Length: %d' % len(body))
        lines.append(b'Content-Length: %d' % (len(body) + 1))
    elif framing.startswith('chunked'):
        lines.append(b'Transfer-Encoding: chunked')
        if framing == 'chunked+length':
            lines.append(b'Content-Length: %d' % len(body))
        half = len(body) // 2
        parts = [body[:half], body[half:]]
        payload = b''
        for i, part in enumerate(parts):
            if not part:
                continue
            size = b'%x' % len(part)
            if framing == 'chunked-badsize' and i == 1:
                size = b'zz'
            payload += size + b'\r\n' + part + b'\r\n'
        if framing != 'chunked-noterm':
            payload += b'0\r\n'
            if framing == 'chunked-trailer':
                payload += b'X-Trailer: t\r\n'
            payload += b'\r\n'
    data = script.get('prefix', b'') + eol.join(lines) + eol + eol + payload
    cut = script.get('cut')
    if cut is not None:
        data = data[:cut]
    return data


class RawServer:
    "one per process; set .script before each request of the client"

    def __init__(self):
        self.sock = socket.socket(socket.AF_INET, socket.SOCK_STREAM)
        self.sock.setsockopt(socket.SOL_SOCKET, socket.SO_REUSEADDR, 1)
        self.sock.bind(('127.0.0.1', 0))
        self.sock.listen(16)
        self.port = self.sock.getsockname()[1]
        self.script = {}
        self.requests = []      # bodies+heads of the requests read
        self.connections = 0
        self._stop = False
        self.thread = threading.Thread(target=self._serve, daemon=True)
        self.thread.start()

    def _read_request(self, conn):
        conn.settimeout(5)
        data = b''
        try:
            while b'\r\n\r\n' not in data:
                chunk = conn.recv(65536)
                if not chunk:
                    return data
                data += chunk
            head, _, rest = data.partition(b'\r\n\r\n')
            length = 0
            for line in head.split(b'\r\n')[1:]:
                name, _, value = line.partition(b':')
                if name.strip().lower() == b'content-length':
                    try:
                        length = int(value.strip())
                    except ValueError:
                        length = 0
            while len(rest) < length:
                chunk = conn.recv(65536)
                if not chunk:
                    break
                rest += chunk
        except OSError:
            pass
        return data

    def _serve(self):
        while not self._stop:
            try:
                conn, _ = self.sock.accept()
            except OSError:
                return
            self.connections += 1
            script = self.script
            try:
                if not script.get('close_early'):
                    self.requests.append(self._read_request(conn))
                    try:
                        conn.sendall(assemble(script))
                    except OSError:
                        pass
                try:
                    conn.shutdown(socket.SHUT_RDWR)
                except OSError:
                    pass
            finally:
                conn.close()

    def close(self):
        self._stop = True
        try:
            self.sock.close()
        except OSError:
            pass
