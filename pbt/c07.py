"""
C07 - WBEM URIs round-trip and canonical URIs respect path equality.
DESIGN.md 4.7.

Sub-checks:

* roundtrip  - instance/class path p x {standard, historical, canonical,
               cimobject, str()}: the printed URI is accepted by
               from_wbem_uri() and the result equals p (up to the documented
               limits of untyped URIs).
* canonical  - p and a variant p' (names/host/namespace case-swapped,
               keybindings shuffled, recursively) have the identical
               canonical URI, which is the standard URI of the lower-cased p.
* ambiguous  - string keys whose text is a datetime or a WBEM URI come back as
               that other type (documented limitation), not as a crash.
* spellings  - the input forms the from_wbem_uri() docstrings document as
               accepted (namespace type, optional leading slash/colon,
               unquoted datetime, DSP0004 literal forms of char16, boolean,
               integer and real values) denote the same path as the printed
               URI.  (Not in DESIGN.md 4.7; added because the printer never
               emits these forms, so that parser regressions in them were
               invisible to the round trip.)
* totality   - from_wbem_uri(text) of both classes returns a path of that
               class or raises ValueError for arbitrary text, grammar
               fragments and mutated printed URIs.
* history    - the same laws for LIVE objects: one path is printed, modified
               in place through the documented routes (attribute setters,
               the modifiable keybindings dictionary, the dictionary
               interface of the path, the keybindings setter - at the top
               level or inside a reference keybinding at any depth, which is
               shared, not copied), copied (copy()/deepcopy), made a
               reference key of another live path, printed and parsed again;
               parse results are live paths too.  After every step the URI
               of each touched live path in every format is the URI of an
               equal path built from scratch from a model (a graph of recipe
               nodes that knows which children are shared), the printed URI
               parses back to the model, and every text parsed earlier
               parses to the same path as the first time.  (Not in DESIGN.md
               4.7; the other sub-checks build a new object per example and
               call each API once, so that anything pywbem remembers between
               two calls - a cached URI, a parse result handed out twice -
               was invisible.)

A failing round trip is attributed to a root cause by repair (see
NEUTRALIZERS): the recipe is simplified feature by feature; the feature whose
removal changes the symptom names the signature.  What remains unexplained is
localised to the smallest failing part (single key / path components /
nesting) and reported as unexplained:<scope>:<symptom>.
"""

import math
import warnings
import copy as copy_

from hypothesis import strategies as st

from pywbem import CIMInstanceName, CIMClassName, CIMDateTime
from pywbem._cim_http import get_cimobject_header

from .runner import Sub
from . import strategies as S

PROPERTY = 'C07'
RULE = (
    "roundtrip: instance paths (1-3 keybindings of type string, char16, "
    "boolean, u/sintN, real32/64, plain int/float incl. INF/NaN and exponent "
    "forms, datetime incl. asterisk forms and intervals, reference nested to "
    "depth 3; string keys with quotes, backslashes, commas, '=', newlines, "
    "non-ASCII; host none | DNS name (also with '-') | host:port | IPv4 | "
    "[IPv6] | [IPv6 with %25/- zone id][:port]; namespace none | 1-3 levels; "
    "host also without namespace) and class paths, each printed in the 4 "
    "formats and by str() and parsed back; canonical: the same paths plus a "
    "drawn case-swap/keybinding-shuffle variant; ambiguous: a flat path with "
    "a string key holding a printed URI or a datetime string; spellings: a "
    "flat path printed by pywbem plus 0-3 keys written in the literal forms "
    "of DSP0004 (single-quoted char16, any-case booleans, binary/octal/hex/"
    "signed integers, reals with exponent, INF, unquoted/quoted datetime) "
    "and a documented variant of the URI head (namespace type, no leading "
    "slash, no colon); totality: "
    "st.text(), joins of URI grammar tokens, grammar-shaped URIs with "
    "arbitrary value texts and mutated printed URIs, through both "
    "from_wbem_uri() methods.  Non-trivial = path with a non-string key, a "
    "nested reference, a host, or a string key containing one of \" \\ , = "
    "newline ' (roundtrip, canonical, ambiguous); at least one re-spelled "
    "key or head (spellings); text containing at least one of . = : / "
    "(totality).  history: a start path (instance path with reference keys "
    "to depth 2, or class path) and 2-8 steps on a pool of up to 4 live "
    "paths: parse the printed URI of a live path (4 formats; the result "
    "joins the pool), parse an earlier text again, copy()/deepcopy, set "
    "classname/namespace/host (new value or case-swapped), set/delete a "
    "keybinding via p.keybindings[k] / .update() / .pop() / p[k] / "
    "p.update(), replace all keybindings via the setter, make another live "
    "path a reference key - each on the top-level path or on a nested "
    "reference path chosen by index (nesting kept <= 3); the URIs of the "
    "touched paths are requested after every 1st/2nd/3rd step or only at "
    "the end, and for all live paths, one round trip each and all earlier "
    "texts at the end.  A history ends at its first violation.  Non-trivial "
    "= at least one modification applied or more than one live path.  "
    "Distinct = distinct generated example.")
ASSUMPTIONS = [
    "CIM names (class, keybinding, namespace components) follow the DSP0004 "
    "identifier grammar in ASCII; 'differs only in lexical case' swaps the "
    "case of ASCII letters only",
    "instance paths have at least one keybinding (pywbem warns that paths "
    "without keybindings are invalid per DSP0004); no NULL key values",
    "hosts follow the format documented for the host parameter of "
    "CIMInstanceName/CIMClassName: DNS name, dotted IPv4, [IPv6] with an "
    "optional zone id introduced by %25 or '-', each with an optional :port",
    "documented limits of untyped WBEM URIs are mapped on the expected side: "
    "typed numbers and Char16 compare with == to the plain int/float/str "
    "that the parser returns; a string key whose text pywbem itself accepts "
    "as a WBEM URI or as a CIMDateTime is expected back as that reference / "
    "datetime (from_wbem_uri docstring); NaN keys are compared with isnan",
    "for the cimobject format the host is expected to be dropped, also in "
    "nested reference keys (to_wbem_uri: 'Keybindings that are references "
    "use the specified format recursively')",
    "string key values are XML-1.0-representable Unicode (no lone "
    "surrogates, no C0 controls other than TAB/LF/CR)",
    "UserWarning/MissingKeybindingsWarning issued by the parser are ignored",
    "spellings asserts only input forms named in the from_wbem_uri() "
    "docstrings (namespace types of DSP0207, tolerated missing leading slash "
    "and colon of local URIs, unquoted datetime, INF/-INF) and the DSP0004 "
    "value grammars those docstrings and _kbstr_to_cimval refer to "
    "(charValue, booleanValue, integerValue, realValue); octal literals "
    "containing the digit 0 and other forms pywbem does not claim are not "
    "generated",
    "history uses only modification routes the class documentation names: "
    "the settable attributes classname/namespace/host/keybindings, the "
    "'modifiable dictionary' returned by keybindings (item assignment, del, "
    "update, pop) and the dictionary interface of CIMInstanceName itself "
    "(p[k] = v, del p[k], p.update()); a keybinding is always set under "
    "its existing spelling or a new name (which spelling survives an "
    "assignment under a case variant is not documented) and the last "
    "keybinding is never removed",
    "sharing: a CIMInstanceName assigned as a keybinding value and the "
    "reference values of copy() are shared with the original (copy() "
    "docstring: 'mutable object types in the keybindings dictionary are "
    "not copied'); the model follows what pywbem does here (identity is "
    "inspected after the call), so either behaviour is accepted.  "
    "from_wbem_uri() results are expected to be independent of every "
    "earlier result: parsing the same text again gives a path equal to the "
    "first result as it was returned, whatever was done to that result "
    "afterwards",
    "history start paths and the values set in steps have the features "
    "with their own roundtrip findings (NEUTRALIZERS) simplified away; a "
    "path that reaches such a feature through attribute steps (host "
    "without namespace) is not parsed back in the historical format",
]

FORMATS = ('standard', 'historical', 'canonical', 'cimobject')

# ---------------------------------------------------------------------------
# generators (recipes, see strategies.py)

KEY_TYPES7 = list(S.KEY_TYPES) + ['sint8', 'uint16', 'sint64', 'uint32',
                                  'string', 'string', 'string']
# fewer types: a larger share of reference keys (deep nesting)
KEY_TYPES_DEEP = ['string', 'string', 'real64', 'float', 'int', 'datetime',
                  'boolean', 'char16']

_STR_SPECIAL = ['"', '\\', ',', '=', '\n', "'", '\\"', '\\\\', '","', ',k=',
                '="', '\r', '\t', ' ', '.', ':', '/', '//', '\xe4', '\u20ac',
                '\U0001F600', '%', '-', '\\n', '\x85', '\u2028', 'k=1', '/:',
                '""', "''", '\\\\"', '\n\n', 'a\nb']


def strings7():
    "string key values: the shared profile plus URI-sensitive characters"
    pieces = st.one_of(
        st.sampled_from(_STR_SPECIAL),
        st.text(alphabet='abcXYZ019 _', min_size=1, max_size=5),
        S.xml_text(3))
    mine = st.lists(pieces, min_size=1, max_size=6).map(''.join)
    # (Hypothesis favours the first alternative for its simplest cases)
    return st.one_of(mine, mine, S.cim_string(), mine)


def host7():
    "hosts as documented for the host parameter (incl. '-' and zone ids)"
    label = st.text(alphabet='abcxyzABC019', min_size=1, max_size=5)
    dashed = st.builds(lambda a, b, dom, port: a + '-' + b + dom + port,
                       label, label,
                       st.sampled_from(['', '.example.com', '.x-y.org']),
                       st.sampled_from(['', '', ':5989']))
    doc = st.sampled_from([
        'my-host', 'my-host.example.com', 'srv-1:5989', 'A-b.C-d',
        'xn--bcher-kva.example', '[fe80::1%25eth0]', '[fe80::1-eth0]',
        '[fe80::1%25eth0]:5989', '[FE80::ABCD-1]', '[fe80::a%25en1]:5988'])
    # authority with a user info component, as in the WBEM URI examples of
    # the to_wbem_uri()/from_wbem_uri() docstrings (jdd:test@acme.com:5989)
    userinfo = st.builds(
        lambda u, h: u + '@' + h,
        st.sampled_from(['jdd:test', 'Jdd:Test', 'user', 'U_1:pW', 'a.b']),
        st.sampled_from(['acme.com:5989', 'Acme.COM', '[fe80::1]:5989',
                         'my-host', '10.1.2.3:5988']))
    return st.one_of(S.host(), S.host(), doc, dashed, userinfo)


_HOSTS = st.lists(st.one_of(st.none(), host7()), min_size=5, max_size=5)
_FLAGS = st.lists(st.sampled_from([False] * 7 + [True]), min_size=5,
                  max_size=5)


def _decorate(r, hosts, nsdrop, nans):
    """
    Give every (nested) path of the recipe its host from `hosts` (a path
    without namespace only sometimes: host without namespace is a legal path
    for this property) and turn some real keys into NaN.
    """
    ctr = [0, 0]

    def rec(p):
        i = ctr[0]
        ctr[0] += 1
        q = dict(p)
        q['host'] = hosts[i % len(hosts)]
        if p['namespace'] is None and not nsdrop[i % len(nsdrop)]:
            # host without namespace is legal here, but kept rare
            q['host'] = None
        if 'keys' in p:
            keys = []
            for n, kt, v in p['keys']:
                if kt == 'reference':
                    v = rec(v)
                elif kt in ('float', 'real32', 'real64'):
                    j = ctr[1]
                    ctr[1] += 1
                    if nans[j % len(nans)]:
                        v = math.nan
                keys.append((n, kt, v))
            q['keys'] = keys
        return q
    return rec(r)


def ipath7(depth=3, key_types=None):
    return st.builds(
        _decorate,
        S.instance_path(depth=depth, key_types=key_types or KEY_TYPES7,
                        strings=strings7(), with_host=False),
        _HOSTS, _FLAGS, _FLAGS)


def cpath7():
    return st.builds(_decorate, S.class_path(with_host=False), _HOSTS,
                     _FLAGS, _FLAGS)


def path7():
    "('ipath'|'cpath', recipe)"
    return st.one_of(
        ipath7(3).map(lambda r: ('ipath', r)),
        ipath7(3, KEY_TYPES_DEEP).map(lambda r: ('ipath', r)),
        ipath7(1).map(lambda r: ('ipath', r)),
        ipath7(0, ['string', 'char16', 'float', 'real32', 'int',
                   'datetime']).map(lambda r: ('ipath', r)),
        cpath7().map(lambda r: ('cpath', r)))


# ---------------------------------------------------------------------------
# recipe helpers

def _map_paths(r, fn):
    "apply fn(pathdict) -> pathdict to every nested path, children first"
    q = dict(r)
    if 'keys' in r:
        q['keys'] = [(n, kt, _map_paths(v, fn) if kt == 'reference' else v)
                     for n, kt, v in r['keys']]
    return fn(q)


def _map_keys(r, fn):
    "apply fn(name, ktype, v) -> (name, ktype, v) to every non-reference key"
    def one(p):
        if 'keys' in p:
            p['keys'] = [k if k[1] == 'reference' else fn(*k)
                         for k in p['keys']]
        return p
    return _map_paths(r, one)


def _all_paths(r):
    yield r
    for _n, kt, v in r.get('keys', ()):
        if kt == 'reference':
            yield from _all_paths(v)


def _all_keys(r):
    for p in _all_paths(r):
        for k in p.get('keys', ()):
            if k[1] != 'reference':
                yield k


def _ref_depth(r):
    d = 0
    for _n, kt, v in r.get('keys', ()):
        if kt == 'reference':
            d = max(d, 1 + _ref_depth(v))
    return d


def _exp_without_fraction(v):
    "float whose repr() has an exponent but no '.' (e.g. 1e+16, 1e-07)"
    if isinstance(v, float) and math.isfinite(v):
        s = repr(float(v))
        return 'e' in s and '.' not in s
    return False


def _classify(kind, r):
    cl = ['kind:' + kind, 'refdepth:%d' % _ref_depth(r)]
    nontrivial = False
    for p in _all_paths(r):
        h = p['host']
        if h is None:
            cl.append('host:none')
        else:
            nontrivial = True
            if '%' in h or (h.startswith('[') and '-' in h):
                cl.append('host:ipv6-zone')
            elif h.startswith('['):
                cl.append('host:ipv6')
            elif '-' in h:
                cl.append('host:dash')
            elif h.replace('.', '').replace(':', '').isdigit():
                cl.append('host:ipv4')
            else:
                cl.append('host:name')
            if not h.startswith('[') and ':' in h or ']:' in h:
                cl.append('host:port')
            if p['namespace'] is None:
                cl.append('host-without-namespace')
        ns = p['namespace']
        cl.append('ns:none' if ns is None else
                  'ns:%d-level' % min(3, ns.count('/') + 1))
    if _ref_depth(r):
        nontrivial = True
    for _n, kt, v in _all_keys(r):
        cl.append('key:' + kt)
        if kt != 'string':
            nontrivial = True
        if kt in ('string', 'char16'):
            for c, name in (('"', 'dquote'), ('\\', 'backslash'),
                            (',', 'comma'), ('=', 'equals'),
                            ('\n', 'newline'), ("'", 'squote')):
                if c in v:
                    cl.append('str:' + name)
                    nontrivial = True
            if any(ord(c) > 127 for c in v):
                cl.append('str:nonascii')
            if v == '':
                cl.append('str:empty')
        elif kt in ('float', 'real32', 'real64'):
            if math.isnan(v):
                cl.append('real:nan')
            elif math.isinf(v):
                cl.append('real:inf')
            elif _exp_without_fraction(v):
                cl.append('real:exponent-without-fraction')
            elif 'e' in repr(float(v)):
                cl.append('real:exponent-with-fraction')
        elif kt == 'datetime':
            cl.append('datetime:' + v[0] +
                      ('-asterisk' if v[0] == 'dtstr' and '*' in v[1]
                       else ''))
    return nontrivial, sorted(set(cl))


# ---------------------------------------------------------------------------
# expected side

_NAN = '<<NaN>>'


def _parser(kind):
    return (CIMInstanceName if kind == 'ipath' else CIMClassName).from_wbem_uri


def _reads_as(s):
    """
    What an untyped URI makes of the string key value s (docstring of
    from_wbem_uri, "limitations"): a reference if s is a WBEM URI of an
    instance path, a datetime if it is a datetime value, else the string.
    pywbem's own parsers are the judges of "is a WBEM URI / datetime value".
    """
    if len(s) < 3:
        return s
    try:
        return CIMInstanceName.from_wbem_uri(s)
    except ValueError:
        pass
    except Exception:  # pylint: disable=broad-except
        return s        # a leak: reported by the totality sub-check
    try:
        return CIMDateTime(s)
    except ValueError:
        return s
    except Exception:  # pylint: disable=broad-except
        return s


def _expected(obj, fmt, counts):
    """
    Normalise a freshly built path to what the untyped URI in format fmt can
    carry: ambiguous strings mapped, host dropped for cimobject.
    """
    if fmt == 'cimobject':
        obj.host = None
    if isinstance(obj, CIMInstanceName):
        for k in list(obj.keybindings.keys()):
            v = obj.keybindings[k]
            if isinstance(v, CIMInstanceName):
                _expected(v, fmt, counts)
            elif isinstance(v, str):
                w = _reads_as(v)
                if w is not v:
                    counts[0] += 1
                    obj.keybindings[k] = w
    return obj


def _kindof(v):
    if isinstance(v, bool):
        return 'boolean'
    if isinstance(v, str):
        return 'string'
    if isinstance(v, (int, float)):
        return 'number'
    if isinstance(v, CIMDateTime):
        return 'datetime'
    if isinstance(v, CIMInstanceName):
        return 'reference'
    return type(v).__name__


def _lower(s):
    return None if s is None else s.lower()


def _diff(q, e, where=''):
    """
    First component in which the parsed path q differs from the expected
    path e, or None.  Only type kinds are decided here; values are compared
    with pywbem's own == (NaN by isnan).
    """
    if type(q) is not type(e):
        return where + 'class'
    if _lower(q.host) != _lower(e.host):
        return where + 'host'
    if _lower(q.namespace) != _lower(e.namespace):
        return where + 'namespace'
    if _lower(q.classname) != _lower(e.classname):
        return where + 'classname'
    if not isinstance(q, CIMInstanceName):
        return None
    qk = sorted(_lower(k) for k in q.keybindings.keys())
    ek = sorted(_lower(k) for k in e.keybindings.keys())
    if qk != ek:
        return where + 'keynames'
    for k in e.keybindings.keys():
        ev = e.keybindings[k]
        qv = q.keybindings[k]
        kind = _kindof(ev)
        if _kindof(qv) != kind:
            return where + 'keytype:%s-comes-back-as-%s' % (kind,
                                                            _kindof(qv))
        if kind == 'reference':
            d = _diff(qv, ev, where + 'ref.')
            if d:
                return d
        elif kind == 'number' and isinstance(ev, float) and math.isnan(ev):
            if not (isinstance(qv, float) and math.isnan(qv)):
                return where + 'keyvalue:nan'
        elif not qv == ev:
            return where + 'keyvalue:' + kind
    return None


def _denan(obj):
    "replace NaN key values by a marker so that == can be used on the rest"
    if isinstance(obj, CIMInstanceName):
        for k in list(obj.keybindings.keys()):
            v = obj.keybindings[k]
            if isinstance(v, CIMInstanceName):
                _denan(v)
            elif isinstance(v, float) and math.isnan(v):
                obj.keybindings[k] = _NAN
    return obj


def _print(p, fmt):
    if fmt == 'cimobject':
        # the way the client uses this format (CIMObject HTTP header)
        return get_cimobject_header(p)
    return p.to_wbem_uri(format=fmt)


def _msgclass(exc):
    "stable class of a ValueError message of the URI parser"
    m = str(exc)
    for key, name in (
            ('Invalid format for an instance path', 'instance-path-syntax'),
            ('Invalid format for a class path', 'class-path-syntax'),
            ('invalid format for its keybindings', 'keybindings-syntax'),
            ('invalid value format in a keybinding', 'key-value-syntax'),
            ('char16 keybinding', 'char16-length')):
        if key in m:
            return name
    return 'other-ValueError'


def _check_fmt(kind, recipe, fmt):
    """
    Print the path of the recipe in fmt, parse it back, compare.
    Returns None (law holds) or (symptom code, detail, exc or None).
    """
    p = S.build(recipe)
    with warnings.catch_warnings():
        warnings.simplefilter('ignore')
        try:
            u = _print(p, fmt)
        except (TypeError, ValueError) as exc:
            # documented only for invalid key types / format arguments
            return ('print-raises-' + type(exc).__name__,
                    '%r: to_wbem_uri(%r) raised %r' % (p, fmt, exc), None)
        if not isinstance(u, str):
            return ('print-not-str', repr(u), None)
        try:
            q = _parser(kind)(u)
        except ValueError as exc:
            return ('rejected:' + _msgclass(exc),
                    'format %s: %r printed as %r is rejected by '
                    'from_wbem_uri: %s' % (fmt, p, u, exc), None)
        counts = [0]
        e = _expected(S.build(recipe), fmt, counts)
        d = _diff(q, e)
        if d is not None:
            return ('not-equal:' + d,
                    'format %s: %r printed as %r is parsed as %r' %
                    (fmt, p, u, q), None)
        # pywbem's own equality must agree (kinds are known to match here)
        if not (_denan(q) == _denan(e)):
            return ('not-equal:by-pywbem-eq-only',
                    'format %s: %r printed as %r is parsed as %r which is '
                    'not == expected %r' % (fmt, p, u, q, e), None)
    return None


# ---------------------------------------------------------------------------
# root-cause attribution of a round-trip failure by repair: the recipe is
# simplified step by step; a step that changes the symptom names its cause,
# what remains after all steps is an unexplained (new) failure.

def _n_host_ns(r, fmt):
    if fmt != 'historical':
        return r

    def fn(p):
        if p['host'] is not None and p['namespace'] is None:
            p['namespace'] = 'root'
        return p
    return _map_paths(r, fn)


def _n_hostchars(r, fmt):
    def fn(p):
        if p['host'] is not None:
            p['host'] = p['host'].replace('-', 'x').replace('%', 'x')
        return p
    return _map_paths(r, fn)


def _n_typedreal(r, fmt):
    return _map_keys(r, lambda n, kt, v: (
        n, 'float' if kt in ('real32', 'real64') else kt, v))


def _n_floatexp(r, fmt):
    return _map_keys(r, lambda n, kt, v: (
        n, kt, 1.5 if kt == 'float' and _exp_without_fraction(v) else v))


def _n_newline(r, fmt):
    def fn(n, kt, v):
        if kt in ('string', 'char16'):
            v = v.replace('\n', ' ')
        return (n, kt, v)
    return _map_keys(r, fn)


NEUTRALIZERS = [
    ('historical-format-with-host-but-no-namespace-not-reparsable',
     _n_host_ns),
    ('host-with-minus-or-percent-rejected-by-parser', _n_hostchars),
    ('typed-real-key-printed-as-debug-repr', _n_typedreal),
    ('float-key-printed-with-exponent-but-no-fraction-rejected',
     _n_floatexp),
    ('newline-in-string-key-rejected-by-parser', _n_newline),
]


def _explain(kind, recipe, fmt, sym):
    """
    -> (list of cause names, residual symptom or None, simplified recipe)
    """
    causes = []
    r = recipe
    for name, fn in NEUTRALIZERS:
        r2 = fn(r, fmt)
        if repr(r2) == repr(r):
            continue
        sym2 = _check_fmt(kind, r2, fmt)
        if sym2 is None or sym2[0] != sym[0]:
            causes.append(name)
        r, sym = r2, sym2
        if sym is None:
            break
    return causes, sym, r


def _coarse(code):
    "symptom code without format, nesting level and message details"
    if code.startswith('rejected'):
        return 'rejected-by-parser'
    if code.startswith('not-equal:'):
        d = code[len('not-equal:'):].replace('ref.', '')
        if d.startswith('keytype:'):
            return 'wrong-type:' + d[len('keytype:'):]
        if d.startswith('keyvalue:'):
            return 'wrong-value'
        return 'wrong-' + d
    return code


def _flat(kt, v):
    return {'k': 'ipath', 'classname': 'C', 'keys': [('k', kt, v)],
            'namespace': None, 'host': None}


def _localize(kind, recipe, fmt, sym):
    """
    Smallest part of a failing recipe that fails on its own: a single
    non-reference key (innermost first), else one path without its nested
    references, else the nesting itself.  -> (scope, symptom)
    """
    if kind != 'ipath':
        return 'class-path', sym
    paths = list(_all_paths(recipe))[::-1]
    for p in paths:
        for _n, kt, v in p['keys']:
            if kt != 'reference':
                s = _check_fmt('ipath', _flat(kt, v), fmt)
                if s is not None:
                    fam = ('integer' if kt in S.INT_TYPES or kt == 'int'
                           else 'real' if kt in S.REAL_TYPES or
                           kt == 'float' else kt)
                    return fam + '-key', s
    for p in paths:
        keys = [k for k in p['keys'] if k[1] != 'reference'] or \
            [('k', 'uint8', 1)]
        s = _check_fmt('ipath', dict(p, keys=keys), fmt)
        if s is not None:
            return 'instance-path-components', s
    return 'nested-reference', sym


def _check_all_formats(ctx, kind, recipe):
    residual = {}     # (scope, coarse symptom) -> [formats], detail
    for fmt in FORMATS:
        sym = _check_fmt(kind, recipe, fmt)
        if sym is None:
            continue
        causes, rest, simple = _explain(kind, recipe, fmt, sym)
        for c in causes:
            ctx.fail(c, sym[1])
        if rest is not None:
            # not attributable to a listed cause: a different defect
            scope, lsym = _localize(kind, simple, fmt, rest)
            ent = residual.setdefault((scope, _coarse(lsym[0])), [[], None])
            ent[0].append(fmt)
            ent[1] = ent[1] or (lsym[1] + '\n(in: %s)' % sym[1])
    for (scope, coarse), (fmts, detail) in sorted(residual.items()):
        sig = 'unexplained:%s:%s' % (scope, coarse)
        if not scope.endswith('-key'):
            # path-level logic is format specific
            sig += ':' + ('all-formats' if len(fmts) == len(FORMATS)
                          else '+'.join(fmts))
        ctx.fail(sig, detail)
    # str() is documented to be the historical format
    p = S.build(recipe)
    with warnings.catch_warnings():
        warnings.simplefilter('ignore')
        if str(p) != p.to_wbem_uri(format='historical'):
            ctx.fail('str-differs-from-historical-format',
                     '%r vs %r' % (str(p), p.to_wbem_uri('historical')))


def roundtrip_strategy():
    return path7()


def roundtrip_oracle(ctx, ex):
    kind, recipe = ex
    nontrivial, classes = _classify(kind, recipe)
    counts = [0]
    _expected(S.build(recipe), 'standard', counts)
    if counts[0]:
        classes.append('ambiguous-string-key')
    _check_all_formats(ctx, kind, recipe)
    ctx.case(nontrivial=nontrivial, classes=classes)


# ---------------------------------------------------------------------------
# canonical law

_SEEDS = st.lists(st.integers(0, 2 ** 30 - 1), min_size=6, max_size=6)


def _variant(r, seeds):
    "case-swapped names/host/namespace and shuffled keybindings, recursive"
    state = [0]

    def nxt():
        state[0] += 1
        i = state[0]
        return (seeds[i % len(seeds)] ^ (i * 0x9E3779B1)) & 0x3FFFFFFF

    def rec(p):
        q = dict(p)
        q['classname'] = S.swapcase_name(p['classname'], nxt())
        if p['namespace'] is not None:
            q['namespace'] = S.swapcase_name(p['namespace'], nxt())
        if p['host'] is not None:
            q['host'] = S.swapcase_name(p['host'], nxt())
        if 'keys' in p:
            keys = [(S.swapcase_name(n, nxt()), kt,
                     rec(v) if kt == 'reference' else v)
                    for n, kt, v in p['keys']]
            ranks = [(nxt() & 0xFFFF, i) for i in range(len(keys))]
            q['keys'] = [keys[i] for _rk, i in sorted(ranks)]
        return q
    return rec(r)


def _lowered(r):
    def fn(p):
        p['classname'] = p['classname'].lower()
        p['namespace'] = _lower(p['namespace'])
        p['host'] = _lower(p['host'])
        if 'keys' in p:
            p['keys'] = [(n.lower(), kt, v) for n, kt, v in p['keys']]
        return p
    return _map_paths(r, fn)


def canonical_strategy():
    return st.tuples(path7(), _SEEDS).map(lambda t: (t[0][0], t[0][1], t[1]))


def _first_diff(a, b):
    n = 0
    while n < min(len(a), len(b)) and a[n] == b[n]:
        n += 1
    return '...%r vs ...%r' % (a[max(0, n - 15):n + 25],
                               b[max(0, n - 15):n + 25])


def canonical_oracle(ctx, ex):
    kind, recipe, seeds = ex
    var = _variant(recipe, seeds)
    nontrivial, classes = _classify(kind, recipe)
    with warnings.catch_warnings():
        warnings.simplefilter('ignore')
        c1 = S.build(recipe).to_wbem_uri(format='canonical')
        c2 = S.build(var).to_wbem_uri(format='canonical')
        c3 = S.build(_lowered(recipe)).to_wbem_uri(format='standard')
    if repr(var) != repr(recipe):
        classes.append('variant:differs')
    if [a[0].lower() for a in var.get('keys', ())] != \
            [a[0].lower() for a in recipe.get('keys', ())]:
        classes.append('variant:key-order-differs')
    if c1 != c2:
        # which freedom is not normalised?
        what = 'several-components-together'
        with warnings.catch_warnings():
            warnings.simplefilter('ignore')
            for nested in (False, True):
                for comp in ('key-order', 'host', 'namespace', 'classname',
                             'keynames'):
                    part = _variant_part(recipe, var, comp, nested)
                    if S.build(part).to_wbem_uri(format='canonical') != c1:
                        what = ('nested-' if nested else '') + comp
                        break
                else:
                    continue
                break
        ctx.fail('canonical-uri-depends-on-' + what,
                 'paths differing only in case/key order have different '
                 'canonical URIs: %s\n%r\n%r' % (_first_diff(c1, c2), c1,
                                                 c2))
    if c1 != c3:
        ctx.fail('canonical-uri-is-not-standard-uri-of-lowercased-path',
                 '%s\n%r\n%r' % (_first_diff(c1, c3), c1, c3))
    ctx.case(nontrivial=nontrivial or repr(var) != repr(recipe),
             classes=classes)


def _variant_part(recipe, var, comp, nested):
    """
    recipe with one freedom taken from var: the key order or the spelling of
    one component, at the top level or (nested) in all reference keys.
    """
    def rec(p, v, depth):
        q = dict(p)
        here = (depth > 0) == nested
        if here and comp in ('host', 'namespace', 'classname'):
            q[comp] = v[comp]
        if 'keys' in p:
            byname = {n.lower(): (n, kt, val) for n, kt, val in p['keys']}
            vkeys = v['keys'] if here and comp == 'key-order' else \
                [next(vk for vk in v['keys']
                      if vk[0].lower() == n.lower()) for n, _kt, _v in
                 p['keys']]
            keys = []
            for vn, _vkt, vv in vkeys:
                n, kt, val = byname[vn.lower()]
                if here and comp == 'keynames':
                    n = vn
                keys.append((n, kt, rec(val, vv, depth + 1)
                             if kt == 'reference' else val))
            q['keys'] = keys
        return q
    return rec(recipe, var, 0)


# ---------------------------------------------------------------------------
# ambiguous strings (documented limitation): no crash, comes back as the
# other type

def ambiguous_strategy():
    flat = ipath7(0, ['string', 'boolean', 'uint8', 'int', 'char16'])
    inner = st.one_of(
        st.tuples(st.just('uri'), ipath7(1, ['string', 'string', 'boolean',
                                             'char16', 'uint8', 'int',
                                             'datetime']),
                  st.sampled_from(FORMATS)),
        st.tuples(st.just('dt'), S.datetime_scalar(), st.just(None)))
    return st.tuples(flat, inner, S.cim_name())


def ambiguous_oracle(ctx, ex):
    outer, (ikind, irec, ifmt), name = ex
    with warnings.catch_warnings():
        warnings.simplefilter('ignore')
        if ikind == 'uri':
            # (a newline anywhere in a URI is the roundtrip sub-check's
            # newline finding)
            s = S.build(_n_newline(irec, ifmt)).to_wbem_uri(format=ifmt)
        else:
            s = str(S.build_datetime(irec))
        want = _reads_as(s)
    # the features of the outer path that the roundtrip sub-check already
    # attributes to their own causes are simplified away here, so that the
    # same root cause is not reported under a second signature
    for _cause, fn in NEUTRALIZERS:
        outer = fn(outer, 'historical')
    recipe = dict(outer)
    recipe['keys'] = [k for k in outer['keys']
                      if k[0].lower() != name.lower()] + [(name, 'string', s)]
    classes = ['inner:' + ikind,
               'string-reads-as:' + _kindof(want)]
    plain = dict(recipe)
    plain['keys'] = recipe['keys'][:-1] + [(name, 'string', 'x')]
    seen = set()
    for fmt in FORMATS:
        # a crash inside the parser escapes to the runner as
        # unexpected:<Type>@...
        sym = _check_fmt('ipath', recipe, fmt)
        if sym is None or _check_fmt('ipath', plain, fmt) is not None:
            # (a failure that does not depend on the string is the business
            # of the roundtrip sub-check)
            continue
        sig = 'string-key-that-reads-as-%s:%s' % (_kindof(want),
                                                  _coarse(sym[0]))
        if sig not in seen:
            seen.add(sig)
            ctx.fail(sig, sym[1])
    ctx.case(nontrivial=True, classes=classes)


# ---------------------------------------------------------------------------
# spellings: the input forms that the from_wbem_uri() docstring documents as
# accepted (namespace type prefix, optional leading slash / colon for local
# URIs, unquoted datetime) and the DSP0004 literal forms of the value
# grammars it refers to (charValue in single quotes, booleanValue in any
# case, binary/octal/hex integerValue, realValue with exponent, INF/NaN)
# denote the same path as the URI pywbem prints.

_DT1 = '20180911124613.128000+000'
_DT2 = '00000001000000.000000:000'
_DT3 = '2018091112****.******+000'

SPELLED = [
    # (text in the URI, expected key value: str | bool | int | float |
    #  ('dt', str))
    ("'a'", 'a'), ("'\\''", "'"), ("'\\\\'", '\\'), ("'\"'", '"'),
    ("','", ','), ("'='", '='), ("'\xe4'", '\xe4'), ("' '", ' '),
    ("'.'", '.'), ("'0'", '0'),
    ('true', True), ('FALSE', False), ('True', True), ('fAlSe', False),
    ('0x1F', 31), ('0X1f', 31), ('-0x10', -16), ('+0xA', 10),
    ('101b', 5), ('-101B', -5), ('+1b', 1), ('0B', 0),
    ('017', 15), ('-017', -15), ('+5', 5), ('0', 0), ('-0', 0),
    ('18446744073709551615', 2 ** 64 - 1),
    ('0xFFFFFFFFFFFFFFFF', 2 ** 64 - 1),
    ('1.0E+16', 1e16), ('1.0e+16', 1e16), ('.5', 0.5), ('+1.5', 1.5),
    ('-1.5e-3', -0.0015), ('1.0e5', 100000.0), ('0.0', 0.0),
    ('INF', math.inf), ('-INF', -math.inf),
    (_DT1, ('dt', _DT1)), (_DT2, ('dt', _DT2)), (_DT3, ('dt', _DT3)),
    ('"' + _DT1 + '"', ('dt', _DT1)),
    ('"a,b=\\"c\\""', 'a,b="c"'), ('"\\\\"', '\\'), ('""', ''),
]

HEADERS = ['asis', 'asis', 'http', 'https', 'cimxml-wbem', 'cimxml-wbems',
           'HTTPS', 'noslash', 'noslash', 'nocolon']


def spellings_strategy():
    base = st.one_of(
        ipath7(0, ['string', 'boolean', 'uint8', 'int']).map(
            lambda r: ('ipath', r)),
        ipath7(0, ['string', 'boolean', 'uint8', 'int']).map(
            lambda r: ('ipath', r)),
        cpath7().map(lambda r: ('cpath', r)))
    extras = st.lists(st.integers(0, len(SPELLED) - 1), min_size=0,
                      max_size=3)
    return st.tuples(base, extras, st.sampled_from(HEADERS))


def spellings_oracle(ctx, ex):
    (kind, recipe), extras, header = ex
    # features with their own findings in the roundtrip sub-check are
    # simplified away
    for _cause, fn in NEUTRALIZERS:
        recipe = fn(recipe, 'historical')
    if kind == 'cpath':
        extras = []
    classes = ['kind:' + kind]
    with warnings.catch_warnings():
        warnings.simplefilter('ignore')
        e = _expected(S.build(recipe), 'standard', [0])
        text = S.build(recipe).to_wbem_uri(format='standard')
        for i, idx in enumerate(extras):
            spelled, val = SPELLED[idx]
            name = 'Zq%d' % i
            if name in e.keybindings:
                continue
            text += ',%s=%s' % (name, spelled)
            e.keybindings[name] = CIMDateTime(val[1]) \
                if isinstance(val, tuple) else val
            classes.append('spelled:' + ('dt' if isinstance(val, tuple)
                                         else type(val).__name__))
        local = recipe['host'] is None
        if header in ('noslash', 'nocolon') and not local:
            header = 'asis'
        if header == 'nocolon' and recipe['namespace'] is not None:
            header = 'noslash'
        texts = [('value-forms', text)]
        if header == 'noslash':
            texts.append((header, text[1:]))
        elif header == 'nocolon':
            texts.append((header, text[2:]))
        elif header != 'asis':
            texts.append(('namespace-type', header + ':' + text))
        classes.append('header:' + header)
        for what, t in texts:
            # (the variant of the URI head is only examined if the URI with
            # the head as printed is fine)
            try:
                q = _parser(kind)(t)
            except ValueError as exc:
                ctx.fail('documented-spelling-rejected:%s:%s' % (
                    what, _msgclass(exc)),
                    '%r (same path as %r) is rejected: %s' % (t, e, exc))
                break
            d = _diff(q, e)
            if d is not None:
                ctx.fail('documented-spelling-parsed-differently:%s:%s' %
                         (what, d),
                         '%r is parsed as %r, expected %r' % (t, q, e))
                break
    ctx.case(nontrivial=bool(extras) or header != 'asis', classes=classes)


# ---------------------------------------------------------------------------
# totality of the parsers

TOKENS = [
    '//', '/', ':', '.', '=', ',', '"', "'", '\\', '\\"', '\\\\', 'k', 'K',
    'key2', 'C', 'CIM_Foo', 'root', 'cimv2', 'host', 'my-host', '[::1]',
    '[fe80::1%25eth0]', ':5988', '@', 'user:pw@', 'http', 'https',
    'cimxml-wbem', 'foo', '1', '0', '-1', '+5', '42', '1.5', '.5', '1.',
    'e+16', '1e+16', '1.0E-3', 'TRUE', 'false', 'INF', '-INF', 'NaN', '0x1F',
    '0X', '101b', '017', '08', '20180911124613.128000+000',
    '00000001000000.000000:000', '**************.******+000', '12345678',
    '\n', ' ', '\t', '\x00', '\uff11', '\u0663', '\xb2', '\xe4', '\u2167',
    '"a"', "'c'", "''", '""', '"/:C.k=1"', '"//h/n:C.k=\\"v\\""', 'k=1',
    'k="a"', ',k2=2', '%', '-', '_', '\xc9', '\u01c5', '\xdf', '\u0130',
    '\u0969', '\U0001D7D8', '\u0f33', '\u00bd', '\u2460',
    # text that is dangerous inside str.format()/%-formatted messages
    '{}', '{0}', '{1}', '{x}', '{', '}', '{0!A}', '{{', '%s', '%(x)s',
    'C.{}', 'k={1},',
]

VALS = [
    '{}', '{1}', '"{x}"', '"a.{b}.c"', '%s', '1', '0', '-0', '+1', '00', '007', '08', '0x', '0xFF', '0XABCDEFG', '1b',
    '2b', '-101B', '1.5', '-1.5', '.5', '1.', '1e5', '1.0e5', '1.0E+5',
    '1.0e', '1.0e+', 'INF', '-INF', '+INF', 'inf', 'NaN', 'nan', '-NaN',
    'TRUE', 'true', 'False', 'T', 'null', 'NULL', '\uff11\uff12',
    '1.\uff15', '\u0663', '\xb2', '\u2167', '\U0001D7D8', '\u0f33', '\u00bd',
    '9' * 400, '1.5e999', '1.5e-999', '-' + '9' * 30,
    '20180911124613.128000+000', '20180911124613.128000-999',
    '00000000000000.000000+000', '00001301000000.000000+000',
    '20181332256199.999999+000', '99999999999999.999999+999',
    '99999999235959.999999:000', '99999999246060.999999:000',
    '2018091112461x.128000+000', '**************.******+000',
    '**************.******:000', '2018**********.******+000',
    '2018091112****.******+***', '20180911124613.128000+0\uff10\uff10',
    '\uff12\uff10\uff11\uff18\uff10\uff19\uff11\uff11\uff11\uff12\uff14'
    '\uff16\uff11\uff13.128000+000',
    '2018091112461\u0663.128000+000',
    '"a"', '""', '"a\\"b"', '"a\\\\"', '"\\', '"a', "'a'", "''", "'ab'",
    "'\\''", "'\\\\'", '"/:C.k=1"', '"//h/n:C.k=\\"v\\""',
    '"C.k=\\"D.j=\\\\\\"x\\\\\\"\\""', '"20180911124613.128000+000"',
    '"00000000000000.000000+000"', '"99999999999999.999999+999"',
    '"\n"', '"a\nb"', '"\\\n"', 'a b', ' 1', '1 ', '',
]


def _uri_like():
    scheme = st.sampled_from(['', '', '', 'http:', 'https:', 'cimxml-wbem:',
                              'foo:', 'HTTP:', 'a-b:', ':', '-:', '\xe4:'])
    auth = st.sampled_from(['', '', '', '//h', '//h:5988', '//u:p@h',
                            '//[::1]', '//', '//my-host', '//h/', '//[',
                            '//h:x', '//\xe4.example'])
    nsp = st.sampled_from(['/', '/', '', '/root', '/root/cimv2', 'root',
                           '/a/b/c', '//', '/root/', '/r\xf6\xf6t', '/1/2'])
    cls = st.sampled_from([':C', ':C', 'C', ':CIM_Foo', ':', ':\xc4',
                           ':1C', ':C D', ':C\n', '::C'])
    kname = st.sampled_from(['k', 'K', 'key2', '_', '1', '\xe4', 'k k', '',
                             'k', 'k1', '\u0130'])
    val = st.one_of(
        st.sampled_from(VALS), st.sampled_from(VALS),
        st.text(max_size=5),
        st.text(max_size=5).map(lambda t: '"' + t + '"'),
        st.text(max_size=2).map(lambda t: "'" + t + "'"))
    kbs = st.lists(st.tuples(kname, st.sampled_from(['=', '=', '=', '==',
                                                     '', ' = ']), val),
                   min_size=0, max_size=4).map(
        lambda l: ','.join(n + e + v for n, e, v in l))
    return st.builds(
        lambda a, b, c, d, dot, e, tail: a + b + c + d + dot + e + tail,
        scheme, auth, nsp, cls, st.sampled_from(['.', '.', '.', '', '..']),
        kbs, st.sampled_from(['', '', '', '', ',', '\n', ' ', '"']))


_MUT_OPS = st.lists(
    st.tuples(st.sampled_from(['del', 'ins', 'rep', 'dup', 'cut', 'swap']),
              st.integers(0, 10 ** 6),
              st.one_of(st.sampled_from(TOKENS), st.text(max_size=2))),
    min_size=1, max_size=4)


def _mutate(u, ops):
    for op, pos, tok in ops:
        n = len(u)
        i = pos % (n + 1)
        if op == 'del':
            u = u[:i] + u[i + 1:]
        elif op == 'ins':
            u = u[:i] + tok + u[i:]
        elif op == 'rep':
            u = u[:i] + tok + u[i + max(1, len(tok)):]
        elif op == 'dup':
            j = min(n, i + 1 + pos // 7 % 12)
            u = u[:j] + u[i:j] + u[j:]
        elif op == 'cut':
            u = u[:i] if pos % 2 else u[i:]
        elif op == 'swap' and n > 1:
            i = pos % (n - 1)
            u = u[:i] + u[i + 1] + u[i] + u[i + 2:]
    return u


def totality_strategy():
    return st.one_of(
        st.tuples(st.just('text'), st.text(max_size=30)),
        st.tuples(st.just('frag'),
                  st.lists(st.sampled_from(TOKENS), min_size=1, max_size=12)),
        st.tuples(st.just('like'), _uri_like()),
        st.tuples(st.just('like'), _uri_like()),
        st.tuples(st.just('mut'),
                  st.tuples(path7(), st.sampled_from(FORMATS), _MUT_OPS)),
    )


def _totality_text(ex):
    how, data = ex
    if how == 'frag':
        return ''.join(data)
    if how == 'mut':
        (_kind, recipe), fmt, ops = data
        # printing is not what is examined here; reals are printed through
        # plain floats so that the text is URI-like
        with warnings.catch_warnings():
            warnings.simplefilter('ignore')
            u = S.build(_n_typedreal(recipe, fmt)).to_wbem_uri(format=fmt)
        return _mutate(u, ops)
    return data


def totality_oracle(ctx, ex):
    text = _totality_text(ex)
    classes = ['gen:' + ex[0]]
    for kind, cls in (('ipath', CIMInstanceName), ('cpath', CIMClassName)):
        with warnings.catch_warnings():
            warnings.simplefilter('ignore')
            try:
                q = cls.from_wbem_uri(text)
            except ValueError:
                classes.append(kind + ':ValueError')
                continue
            except Exception as exc:  # pylint: disable=broad-except
                classes.append(kind + ':leak')
                ctx.fail_exc(exc, 'leak')
                continue
        if type(q) is not cls:
            ctx.fail('parser-returns-' + type(q).__name__,
                     '%s.from_wbem_uri(%r) returned %r' %
                     (cls.__name__, text, q))
        classes.append(kind + ':accepted')
    ctx.case(nontrivial=any(c in text for c in '.=:/'), classes=classes)


# ---------------------------------------------------------------------------
# history: the laws hold for LIVE path objects, i.e. for paths that were
# printed before, modified in place through a documented route (attribute
# setters, the modifiable keybindings dictionary, the dictionary interface of
# the path itself, the keybindings setter; at the top level or in a nested
# reference path, which reference keybindings and copy() share, not copy),
# copied, parsed from a printed URI and modified again.  The model is a graph
# of recipe nodes (it knows which children are shared); after every step the
# URI of the live object in every format must be the URI of an equal path
# built from scratch from the model, the printed URI must parse back to the
# model, and a text that was parsed before must parse to the same path again,
# whatever was done to the earlier result in the meantime.

_H_POOL = 4          # live top-level paths per history
_H_DEPTH = 3         # nesting depth the property quantifies over
_H_FMTS = FORMATS + ('str',)
_I = st.integers(0, 999)


# few scalar types: a large share of reference keys
KEY_TYPES_REFS = ['string', 'int', 'boolean', 'datetime']


def _h_step():
    value = st.one_of(
        S.keyvalue(1, key_types=KEY_TYPES7, strings=strings7()),
        S.keyvalue(1, key_types=KEY_TYPES_REFS, strings=strings7()))
    name = S.cim_name()
    comps = st.tuples(S.classname(), st.one_of(st.none(), S.namespace()),
                      st.one_of(st.none(), host7()))
    set_how = st.sampled_from(['kbdict', 'kbdict', 'kbdict-update', 'item',
                               'update'])
    del_how = st.sampled_from(['kbdict', 'kbdict', 'kbdict-pop', 'item'])
    return st.one_of(
        st.tuples(st.just('parse'), _I, st.sampled_from(FORMATS)),
        st.tuples(st.just('parse'), _I, st.sampled_from(FORMATS)),
        st.tuples(st.just('reparse'), _I),
        st.tuples(st.just('copy'), _I,
                  st.sampled_from(['copy', 'copy', 'deepcopy'])),
        st.tuples(st.just('attr'), _I, _I, st.sampled_from(
            ['classname', 'namespace', 'host', 'classname-swapcase',
             'namespace-swapcase', 'host-swapcase']), comps, _I),
        st.tuples(st.just('set'), _I, _I, set_how, _I, name, value),
        st.tuples(st.just('set'), _I, _I, set_how, _I, name, value),
        st.tuples(st.just('del'), _I, _I, del_how, _I, _I),
        st.tuples(st.just('replace'), _I, _I,
                  S.keybindings(1, 1, 3, KEY_TYPES7, strings7()),
                  st.booleans()),
        st.tuples(st.just('share'), _I, _I, _I, _I, name),
    )


def history_strategy():
    start = st.one_of(
        ipath7(2, KEY_TYPES_REFS).map(lambda r: ('ipath', r)),
        ipath7(2, KEY_TYPES_REFS).map(lambda r: ('ipath', r)),
        ipath7(1, KEY_TYPES_REFS).map(lambda r: ('ipath', r)),
        ipath7(1, KEY_TYPES_REFS).map(lambda r: ('ipath', r)),
        ipath7(2, KEY_TYPES_DEEP).map(lambda r: ('ipath', r)),
        ipath7(2).map(lambda r: ('ipath', r)),
        ipath7(1).map(lambda r: ('ipath', r)),
        ipath7(0).map(lambda r: ('ipath', r)),
        cpath7().map(lambda r: ('cpath', r)))
    # every: the URIs of the touched paths are requested after every n-th
    # step (0: only at the end, i.e. the first request comes after all the
    # modifications)
    return st.tuples(start, st.sampled_from([1, 1, 1, 1, 2, 3, 0]),
                     st.sampled_from([2, 3, 4, 5, 6, 8]).flatmap(
                         lambda n: st.lists(_h_step(), min_size=n,
                                            max_size=n)),
                     st.sampled_from(FORMATS))


def _neutral(r):
    "recipe without the features that have their own roundtrip findings"
    for _cause, fn in NEUTRALIZERS:
        r = fn(r, 'historical')
    return r


def _known_feature(r, fmt):
    return any(repr(fn(r, fmt)) != repr(r) for _cause, fn in NEUTRALIZERS)


def _recipe_of(obj):
    "recipe of a path as an untyped URI carries it (model of a parse result)"
    if isinstance(obj, CIMClassName):
        return {'k': 'cpath', 'classname': obj.classname,
                'namespace': obj.namespace, 'host': obj.host}
    keys = []
    for n in obj.keybindings.keys():
        v = obj.keybindings[n]
        if isinstance(v, CIMInstanceName):
            keys.append((n, 'reference', _recipe_of(v)))
        elif isinstance(v, bool):
            keys.append((n, 'boolean', bool(v)))
        elif isinstance(v, CIMDateTime):
            keys.append((n, 'datetime', ('dtstr', str(v))))
        elif isinstance(v, str):
            keys.append((n, 'string', str(v)))
        elif isinstance(v, int):
            keys.append((n, 'int', int(v)))
        else:
            keys.append((n, 'float', float(v)))
    return {'k': 'ipath', 'classname': obj.classname, 'keys': keys,
            'namespace': obj.namespace, 'host': obj.host}


def _nested_objects(obj, acc=None):
    "all CIMInstanceName objects inside obj (obj included), by identity"
    acc = [] if acc is None else acc
    acc.append(obj)
    if isinstance(obj, CIMInstanceName):
        for k in obj.keybindings.keys():
            v = obj.keybindings[k]
            if isinstance(v, CIMInstanceName) and \
                    not any(v is a for a in acc):
                _nested_objects(v, acc)
    return acc


def _follow(obj, keypath):
    for name in keypath:
        obj = obj.keybindings[name]
    return obj


class _Hist:
    """
    Model of one history: a graph of path nodes (recipe dicts whose
    reference keys hold node numbers, so that shared children are
    represented) and the pool of live top-level paths.
    """

    def __init__(self):
        self.nodes = {}
        self.pool = []      # dict(root, obj, kind, ok={fmt: seq})
        self.seq = 0
        self.log = []       # (seq, node, route label) of modifications
        self.parsed = []    # dict(kind, text, fmt, want, seq, nodes)

    def add(self, recipe):
        i = len(self.nodes)
        n = dict(recipe)
        self.nodes[i] = n
        if 'keys' in recipe:
            n['keys'] = [[name, kt, self.add(v) if kt == 'reference' else v]
                         for name, kt, v in recipe['keys']]
        return i

    def tree(self, i):
        n = self.nodes[i]
        r = dict(n)
        if 'keys' in n:
            r['keys'] = [(name, kt, self.tree(v) if kt == 'reference' else v)
                         for name, kt, v in n['keys']]
        return r

    def children(self, i):
        return [(name, v) for name, kt, v in self.nodes[i].get('keys', ())
                if kt == 'reference']

    def reach(self, i, acc=None):
        acc = set() if acc is None else acc
        if i not in acc:
            acc.add(i)
            for _name, c in self.children(i):
                self.reach(c, acc)
        return acc

    def depth(self, i):
        return max([1 + self.depth(c) for _n, c in self.children(i)] or [0])

    def routes(self, i, prefix=()):
        out = [(prefix, i)]
        for name, c in self.children(i):
            out.extend(self.routes(c, prefix + (name,)))
        return out

    def too_deep(self):
        return any(self.depth(e['root']) > _H_DEPTH for e in self.pool)

    def join(self, root, obj, kind):
        e = dict(root=root, obj=obj, kind=kind, ok={})
        self.pool.append(e)
        return e

    def modified(self, nid, label):
        self.seq += 1
        self.log.append((self.seq, nid, label))

    def since(self, seq, nodes):
        return [(s, n, lab) for s, n, lab in self.log
                if s > seq and n in nodes]


def _h_print(obj, fmt):
    if fmt == 'str':
        return str(obj)
    return _print(obj, fmt)


class _Stop(Exception):
    """
    Ends a history after its first violation (what follows on the same live
    objects would be consequences of it, not further findings).
    """


# Path objects (at any nesting depth) that from_wbem_uri() has handed out in
# this process, by id().  Only used to name the root cause of a failure
# (never to detect one): state kept inside pywbem between two parser calls
# outlives the history in which it was created.
_HANDED = {}


def _h_handed(q):
    if len(_HANDED) > 100000:
        _HANDED.clear()
    for o in _nested_objects(q):
        ent = _HANDED.get(id(o))
        if ent is None or ent[0] is not o:
            _HANDED[id(o)] = [o, 1]
        else:
            ent[1] += 1


def _h_was_handed(o, times=1):
    ent = _HANDED.get(id(o))
    return ent is not None and ent[0] is o and ent[1] >= times


def _h_sharing(h, q=None):
    """
    Root cause attribution: is one path object found at two places that are
    different nodes of the model, i.e. shared although no documented sharing
    (reference keybinding set to an existing object, copy()) took place?
    -> signature or None
    """
    if q is not None:
        if any(_h_was_handed(o) for o in _nested_objects(q)):
            return 'from_wbem_uri-result-contains-path-object-of-an-' \
                'earlier-result'
        return None
    seen = []
    for e in h.pool:
        for keypath, nid in h.routes(e['root']):
            try:
                o = _follow(e['obj'], keypath)
            except (KeyError, AttributeError):
                continue
            if _h_was_handed(o, 2):
                # (also by a parser call of an earlier history)
                return 'from_wbem_uri-result-contains-path-object-of-an-' \
                    'earlier-result'
            for o2, nid2 in seen:
                if o is o2 and nid != nid2:
                    if _h_was_handed(o):
                        return 'from_wbem_uri-result-contains-path-' \
                            'object-of-an-earlier-result'
                    return 'independent-paths-share-a-nested-path-object'
            seen.append((o, nid))
    return None


def _h_component(d):
    "component class of a _diff() result"
    return ('nested-' if d.startswith('ref.') else '') + \
        d.replace('ref.', '').split(':')[0]


def _h_sweep(ctx, h, entries, fmts=_H_FMTS):
    """
    The URI of every live path in every format is the URI of an equal path
    built from scratch.
    """
    for e in entries:
        recipe = h.tree(e['root'])
        nodes = h.reach(e['root'])
        for fmt in fmts:
            fresh = S.build(recipe)
            u1 = _h_print(e['obj'], fmt)
            u2 = _h_print(fresh, fmt)
            ctx.event('uri-requests-on-live-paths')
            last = e['ok'].get(fmt)
            mods = h.since(-1 if last is None else last, nodes)
            if mods:
                ctx.event('uri-after-modification:' + fmt)
                if last is not None:
                    ctx.event('uri-requested-then-modified-then-requested:' +
                              fmt)
            elif last is not None:
                ctx.event('uri-requested-again-without-modification')
            if u1 == u2:
                e['ok'][fmt] = h.seq
                continue
            labels = sorted(set(
                ('' if n == e['root'] else 'nested-') + lab
                for _s, n, lab in mods))
            sig = _h_sharing(h)
            d = _diff(e['obj'], fresh)
            if sig is not None:
                pass
            elif d is not None:
                # the object itself is not what the documented semantics of
                # the modification give
                sig = 'modified-path-is-not-equal-to-path-built-from-' \
                    'scratch:' + _h_component(d)
            else:
                sig = 'uri-of-live-path-differs-from-uri-of-equal-path-' \
                    'built-from-scratch:%s:after-%s' % (
                        fmt, 'no-modification' if not labels else
                        labels[0] if len(labels) == 1 else
                        'several-modifications')
            ctx.fail(sig, 'format %s: live %r prints %r, equal new path '
                     'prints %r (%s); modifications since the last request: '
                     '%r' % (fmt, e['obj'], u1, u2, _first_diff(u1, u2),
                             [lab for _s, _n, lab in mods]))
            raise _Stop()


def _h_parse(ctx, h, e, fmt, classes, join):
    """
    Print the live path, parse the URI, compare with the model; the result
    becomes a live path of the pool.
    """
    recipe = h.tree(e['root'])
    if _known_feature(recipe, fmt):
        classes.add('parse:skipped-feature-with-own-finding')
        return []
    kind = e['kind']
    # (a wrong URI is the finding of the sweep, not of the parser)
    _h_sweep(ctx, h, [e], (fmt,))
    u = _print(e['obj'], fmt)
    ctx.event('parse-of-uri-of-live-path')
    if h.since(-1, h.reach(e['root'])):
        ctx.event('parse-of-uri-of-modified-path')
    try:
        q = _parser(kind)(u)
    except ValueError as exc:
        ctx.fail('printed-uri-of-live-path-rejected:%s:%s' % (
            fmt, _msgclass(exc)), 'format %s: %r printed as %r is rejected: '
            '%s' % (fmt, e['obj'], u, exc))
        raise _Stop()
    want = _expected(S.build(recipe), fmt, [0])
    d = _diff(q, want)
    if d is not None:
        sig = _h_sharing(h, q)
        if sig is None and any(p['kind'] == kind and p['text'] == u
                               for p in h.parsed):
            sig = 'from_wbem_uri-result-for-the-same-text-changed:' + \
                _h_component(d)
        if sig is None:
            sig = 'round-trip-of-live-path:%s:%s' % (fmt, _h_component(d))
        ctx.fail(sig, 'format %s: live %r printed as %r is parsed as %r, '
                 'expected %r' % (fmt, e['obj'], u, q, want))
        raise _Stop()
    if fmt == 'canonical':
        # the spelling the canonical format gives (string key values that
        # read as a URI keep theirs)
        want = _expected(S.build(_lowered(recipe)), fmt, [0])
    want_recipe = _recipe_of(want)
    ent = dict(kind=kind, text=u, fmt=fmt, want=want_recipe, seq=h.seq,
               nodes=set())
    h.parsed.append(ent)
    _h_handed(q)
    if join and len(h.pool) < _H_POOL:
        root = h.add(want_recipe)
        ent['nodes'] = h.reach(root)
        classes.add('pool:parse-result')
        return [h.join(root, q, kind)]
    return []


def _h_reparse(ctx, h, ent):
    "a text that was parsed before denotes the same path as before"
    ctx.event('text-parsed-again')
    if h.since(ent['seq'], ent['nodes']):
        ctx.event('text-parsed-again-after-earlier-result-was-modified')
    q = _parser(ent['kind'])(ent['text'])
    want = S.build(ent['want'])
    d = _diff(q, want)
    if d is not None:
        sig = _h_sharing(h, q) or \
            'from_wbem_uri-result-for-the-same-text-changed:' + \
            _h_component(d)
        ctx.fail(sig, '%r was parsed as %r before and is parsed as %r now' %
                 (ent['text'], want, q))
        raise _Stop()
    _h_handed(q)


def _h_keyname(node, idx, newname):
    "an existing keybinding name, or (every third time) a new one"
    names = [k[0] for k in node['keys']]
    if idx % 3:
        return names[(idx // 3) % len(names)]
    lower = set(n.lower() for n in names)
    name = newname
    i = 1
    while name.lower() in lower:
        i += 1
        name = '%s%d' % (newname, i)
    return name


def _h_setkey(h, node, name, kt, v):
    "model of keybindings[name] = value (v: recipe value or node number)"
    for k in node['keys']:
        if k[0].lower() == name.lower():
            k[1], k[2] = kt, v
            return
    node['keys'].append([name, kt, v])


def _h_modify(ctx, h, step, classes):
    """
    One in-place modification of a live path (top level or nested) through
    a documented route; the model node is changed in the same way.
    -> route label or None (step not applicable)
    """
    op = step[0]
    e = h.pool[step[1] % len(h.pool)]
    routes = h.routes(e['root'])
    keypath, nid = routes[step[2] % len(routes)]
    node = h.nodes[nid]
    live = _follow(e['obj'], keypath)
    label = None
    if op == 'attr':
        which, (cn, ns, host), seed = step[3:6]
        name = which.split('-')[0]
        if which.endswith('-swapcase'):
            if node[name] is None:
                return None
            val = S.swapcase_name(node[name], seed + 1)
            classes.add('modify:case-only')
        else:
            val = {'classname': cn, 'namespace': ns, 'host': host}[name]
            if name == 'host' and val is not None:
                val = val.replace('-', 'x').replace('%', 'x')
        node[name] = val
        setattr(live, name, val)
        label = 'attribute'
    elif e['kind'] != 'ipath':
        return None
    elif op in ('set', 'share', 'replace'):
        old = [list(k) for k in node['keys']]
        other = None
        if op == 'set':
            how, idx, newname, (kt, v) = step[3:7]
            name = _h_keyname(node, idx, newname)
            kt, v = _neutral(_flat(kt, v))['keys'][0][1:]
            _h_setkey(h, node, name, kt,
                      h.add(v) if kt == 'reference' else v)
            value = S.build_keyvalue(kt, v)
        elif op == 'share':
            other = h.pool[step[3] % len(h.pool)]
            if other['kind'] != 'ipath' or nid in h.reach(other['root']):
                return None     # (would be a cycle)
            how = 'kbdict'
            name = _h_keyname(node, step[4], step[5])
            _h_setkey(h, node, name, 'reference', other['root'])
            value = other['obj']
        else:
            how = 'kbsetter'
            keys = _neutral(dict(_flat('uint8', 1), keys=step[3]))['keys']
            node['keys'] = [[n, kt, h.add(v) if kt == 'reference' else v]
                            for n, kt, v in keys]
            value = [(n, S.build_keyvalue(kt, v)) for n, kt, v in keys]
            if step[4]:
                value = dict(value)
        if h.too_deep():
            node['keys'] = old
            return None
        if how == 'kbdict':
            live.keybindings[name] = value
        elif how == 'kbdict-update':
            live.keybindings.update({name: value})
        elif how == 'item':
            live[name] = value
        elif how == 'update':
            live.update([(name, value)])
        else:
            live.keybindings = value
        if other is not None:
            classes.add('modify:existing-path-becomes-reference-key')
            if live.keybindings[name] is not value:
                # (stored as a copy: no sharing in the model either)
                _h_setkey(h, node, name, 'reference',
                          h.add(h.tree(other['root'])))
        label = {'kbdict': 'keybindings-dict',
                 'kbdict-update': 'keybindings-dict',
                 'item': 'item-interface', 'update': 'item-interface',
                 'kbsetter': 'keybindings-setter'}[how]
        classes.add('modify:set-via-' + how)
    elif op == 'del':
        how, idx, seed = step[3:6]
        if len(node['keys']) < 2:
            return None     # (paths keep at least one keybinding)
        k = node['keys'][idx % len(node['keys'])]
        node['keys'].remove(k)
        spelled = S.swapcase_name(k[0], seed)
        if how == 'kbdict':
            del live.keybindings[spelled]
        elif how == 'kbdict-pop':
            live.keybindings.pop(spelled)
        else:
            del live[spelled]
        label = 'item-interface' if how == 'item' else 'keybindings-dict'
        classes.add('modify:del-via-' + how)
    h.modified(nid, label)
    users = [p for p in h.pool if nid in h.reach(p['root'])]
    classes.add('modify:' + ('nested-' if keypath else '') + label)
    if len(users) > 1:
        classes.add('modify:node-shared-by-several-live-paths')
    if any(nid in p['nodes'] for p in h.parsed):
        classes.add('modify:parse-result' + ('-nested' if keypath else ''))
    return users


def _h_copy(h, e, how, classes):
    if len(h.pool) >= _H_POOL:
        return None
    if how == 'deepcopy' or e['kind'] != 'ipath':
        obj = copy_.deepcopy(e['obj']) if how == 'deepcopy' else \
            e['obj'].copy()
        root = h.add(h.tree(e['root']))
    else:
        # copy() is documented to share the mutable keybinding values
        obj = e['obj'].copy()
        node = dict(h.nodes[e['root']])
        node['keys'] = []
        for name, kt, v in h.nodes[e['root']]['keys']:
            if kt == 'reference' and \
                    obj.keybindings[name] is not e['obj'].keybindings[name]:
                v = h.add(h.tree(v))
            node['keys'].append([name, kt, v])
        root = len(h.nodes)
        h.nodes[root] = node
    classes.add('pool:' + how)
    return [h.join(root, obj, e['kind'])]


def _h_run(ctx, h, every, steps, ffmt, classes, nmod):
    if every:
        _h_sweep(ctx, h, h.pool)
    pending = []
    for n, step in enumerate(steps):
        op = step[0]
        if op == 'parse':
            e = h.pool[step[1] % len(h.pool)]
            users = _h_parse(ctx, h, e, step[2], classes, True)
        elif op == 'reparse':
            users = []
            if h.parsed:
                _h_reparse(ctx, h, h.parsed[step[1] % len(h.parsed)])
        elif op == 'copy':
            e = h.pool[step[1] % len(h.pool)]
            users = _h_copy(h, e, step[2], classes)
        else:
            users = _h_modify(ctx, h, step, classes)
            if users is not None:
                nmod[0] += 1
        if users is None:
            classes.add('step-not-applicable:' + op)
            continue
        classes.add('op:' + op)
        pending.extend(u for u in users
                       if not any(u is p for p in pending))
        if every and (n + 1) % every == 0:
            _h_sweep(ctx, h, pending)
            pending = []
    # at the end: every live path in every format, the round trip of
    # every live path, and every text parsed so far once more
    _h_sweep(ctx, h, h.pool)
    for e in list(h.pool):
        _h_parse(ctx, h, e, ffmt, classes, False)
    for ent in list(h.parsed):
        _h_reparse(ctx, h, ent)


def history_oracle(ctx, ex):
    (kind, recipe), every, steps, ffmt = ex
    recipe = _neutral(recipe)
    h = _Hist()
    classes = set(['kind:' + kind, 'steps:%d' % len(steps),
                   'uri-requests:' + ('only-at-the-end' if not every else
                                      'every-%d-steps' % every)])
    nmod = [0]
    with warnings.catch_warnings():
        warnings.simplefilter('ignore')
        h.join(h.add(recipe), S.build(recipe), kind)
        try:
            _h_run(ctx, h, every, steps, ffmt, classes, nmod)
        except _Stop:
            classes.add('history-ended-by-violation')
    nmod = nmod[0]
    classes.add('modifications:%s' % (nmod if nmod < 4 else '4+'))
    classes.add('live-paths:%d' % len(h.pool))
    classes.add('refdepth:%d' % max(h.depth(e['root']) for e in h.pool))
    ctx.case(nontrivial=nmod > 0 or len(h.pool) > 1, classes=sorted(classes))


# Mutations of pywbem (one at a time, scratch worktree of /repo HEAD, quick
# tier, VERIF_SEED=1) -> new signatures reported in addition to the findings
# of the unchanged tree.
SENSITIVITY = [
    "to_wbem_uri case_sorted(): sort before lower-casing ([case(k) for k in "
    "sorted(keys)]) -> canonical/canonical-uri-depends-on-keynames, "
    "canonical/canonical-uri-is-not-standard-uri-of-lowercased-path",
    "to_wbem_uri: string keys escape '\"' but not '\\' -> "
    "roundtrip/unexplained:string-key:wrong-value, "
    "roundtrip/unexplained:string-key:rejected-by-parser, "
    "ambiguous/string-key-that-reads-as-reference:rejected-by-parser",
    "WBEM_URI_KB_FINDALL_REGEXP without the single-quoted alternative -> "
    "spellings/documented-spelling-parsed-differently:value-forms:keynames "
    "(not visible "
    "to the round trip: the printer never writes single quotes)",
    "_kbstr_to_cimval tries CIMDateTime before from_wbem_uri -> NOT caught: "
    "equivalent mutant (no text is both a datetime value and a WBEM URI)",
    "_kbstr_to_cimval: no unescaping of double-quoted values -> "
    "roundtrip/unexplained:string-key:wrong-value, roundtrip/unexplained:"
    "nested-reference:wrong-type:reference-comes-back-as-string:all-formats",
    "to_wbem_uri: nested reference printed with the default format instead "
    "of the requested one -> canonical/canonical-uri-depends-on-nested-host "
    "(-classname, -namespace, -keynames), "
    "roundtrip/unexplained:nested-reference:wrong-host:cimobject",
    "to_wbem_uri: host not lower-cased in canonical format -> "
    "canonical/canonical-uri-depends-on-host",
    "_KB_DOUBLE_QUOTED = '\"[^\"]*\"' (no backslash escapes) -> "
    "roundtrip/unexplained:string-key:rejected-by-parser, "
    "roundtrip/unexplained:nested-reference:rejected-by-parser:all-formats",
    "WBEM_URI_INSTANCEPATH_REGEXP: namespace restricted to one level -> "
    "roundtrip/unexplained:instance-path-components:rejected-by-parser:"
    "all-formats",
    "_utils.DECIMAL_VALUE without '-' -> "
    "roundtrip/unexplained:integer-key:rejected-by-parser",
    "_utils.REAL_VALUE without INF/-INF -> "
    "roundtrip/unexplained:real-key:rejected-by-parser",
    "to_wbem_uri: reference key value not backslash-escaped -> "
    "roundtrip/unexplained:nested-reference:rejected-by-parser:all-formats",
    "from_wbem_uri: last keybinding dropped (findall(...)[:-1]) -> "
    "roundtrip/unexplained:instance-path-components:wrong-keynames:"
    "all-formats",
    "CIMClassName.to_wbem_uri: classname not lower-cased in canonical format "
    "-> canonical/canonical-uri-depends-on-classname",
    "_kbstr_to_cimval: char16 length check replaced by cimval[0] -> "
    "totality/leak:IndexError@_cim_obj:_kbstr_to_cimval:returncimval_0",
    "CIMInstanceName remembers its canonical URI in a slot; dropped in the "
    "attribute setters and in __setitem__/__delitem__/update() of the path, "
    "not when the keybindings dictionary or a referenced path is modified "
    "(seeded change C07-6) -> history/uri-of-live-path-differs-from-uri-of-"
    "equal-path-built-from-scratch:canonical:after-keybindings-dict (656 "
    "hits), :after-nested-keybindings-dict (96), :after-nested-keybindings-"
    "setter (43), :after-nested-item-interface (13), :after-nested-attribute "
    "(19), :after-several-modifications (30); no other sub-check fires",
    "functools.lru_cache on _kbstr_to_cimval: reference keybindings of "
    "different parse results are one shared object (seeded change C07-5) -> "
    "history/from_wbem_uri-result-contains-path-object-of-an-earlier-result "
    "(89 hits: a text is parsed, a nested path of the result is modified, "
    "the text is parsed again; the roundtrip sub-check sees the change only "
    "through the conflation of 1/1.0/True argument hashes)",
]

SUBCHECKS = [
    Sub('roundtrip', strategy=roundtrip_strategy, oracle=roundtrip_oracle,
        quick=(16, 1200), thorough=(16, 30000)),
    Sub('canonical', strategy=canonical_strategy, oracle=canonical_oracle,
        quick=(8, 1000), thorough=(16, 15000)),
    Sub('ambiguous', strategy=ambiguous_strategy, oracle=ambiguous_oracle,
        quick=(8, 600), thorough=(16, 8000)),
    Sub('spellings', strategy=spellings_strategy, oracle=spellings_oracle,
        quick=(8, 800), thorough=(16, 8000)),
    Sub('totality', strategy=totality_strategy, oracle=totality_oracle,
        quick=(16, 2500), thorough=(16, 50000)),
    Sub('history', strategy=history_strategy, oracle=history_oracle,
        quick=(8, 300), thorough=(16, 6000)),
]
