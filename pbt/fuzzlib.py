"""
Coverage-guided campaigns (atheris/libFuzzer) as a sub-check of the runner.

campaign() starts one libFuzzer process per shard on a fuzz target module
(``python -m pbt.fuzz_cNN <corpus_dir> <libFuzzer options>``), with a fresh
corpus directory per shard (shard 0 starts from an empty corpus, the others
from the seed inputs of the target), a seed derived from VERIF_SEED, and a
bound on runs and on time.  libFuzzer stops at the first crash: the artifact
is read back, handed to the *normal* oracle of the property through
``replay(ctx, ('bytes', hex))`` so that it gets the usual root-cause
signature (and is matched against known-findings.txt), and the campaign goes
on with the next seed.  A time-out of the target ('timeout-' artifact) is
handed to the oracle in the same way.
"""

import os
import re
import sys
import shutil
import tempfile
import subprocess


def campaign(ctx, shard, module, seed_corpus, replay, max_len=4096,
             dictionary=None, timeout=25, rounds=6):
    from .runner import VERIF
    deps = os.path.join(VERIF, '.deps')
    if not os.path.isdir(os.path.join(deps, 'atheris')):
        ctx.event('atheris-not-installed')
        ctx.case(key=('atheris', 'missing'), nontrivial=False)
        return
    work = tempfile.mkdtemp(prefix='verif_atheris_')
    try:
        cdir = os.path.join(work, 'corpus')
        os.makedirs(cdir)
        if shard != 0:
            seed_corpus(cdir)
        art = os.path.join(work, 'crash-')
        runs = int(os.environ.get('VERIF_ATHERIS_RUNS', '150000'))
        secs = int(os.environ.get('VERIF_ATHERIS_SECS', '600'))
        env = dict(os.environ, PYTHONPATH=deps + os.pathsep + VERIF)
        extra = []
        if dictionary:
            dpath = os.path.join(work, 'dict.txt')
            with open(dpath, 'w', encoding='ascii') as fp:
                for tok in dictionary:
                    fp.write('"%s"\n' % ''.join(
                        c if 32 < ord(c) < 127 and c not in '"\\'
                        else '\\x%02x' % ord(c) for c in tok))
            extra.append('-dict=' + dpath)
        found = 0
        executed = 0
        for attempt in range(rounds):
            cmd = [sys.executable, '-m', module, cdir,
                   '-artifact_prefix=' + art, '-runs=%d' % runs,
                   '-max_total_time=%d' % secs, '-max_len=%d' % max_len,
                   '-timeout=%d' % timeout,
                   '-seed=%d' % (ctx.seed % 2 ** 31 + attempt),
                   '-print_final_stats=1', '-verbosity=0'] + extra
            r = subprocess.run(cmd, cwd=VERIF, env=env, capture_output=True,
                               text=True, errors='replace')
            m = re.search(r'stat::number_of_executed_units:\s*(\d+)',
                          r.stderr + r.stdout)
            if m:
                executed += int(m.group(1))
            elif 'Traceback' in r.stderr and 'crash-' not in r.stderr:
                ctx.event('atheris:target-did-not-start')
                ctx.event('atheris:stderr:' + r.stderr[-200:])
                ctx.inconclusive_case('fuzz-target-failed')
                break
            crashes = [f for f in os.listdir(work)
                       if f.startswith('crash-')]
            if not crashes:
                break
            for f in crashes:
                with open(os.path.join(work, f), 'rb') as fp:
                    data = fp.read()
                os.remove(os.path.join(work, f))
                found += 1
                replay(ctx, ('bytes', data.hex()))
            # libFuzzer stops at the first crash: go on with a new seed
        ctx.evaluations += executed
        ctx.event('atheris:executed-units', executed)
        ctx.event('atheris:crash-artifacts', found)
        ctx.event('atheris:corpus-files', len(os.listdir(cdir)))
        # non-trivial by rule: the inputs libFuzzer kept because they reached
        # new coverage in the instrumented pywbem code (incl. the seeds that
        # did); a few of them become the samples of the evidence
        from .runner import fingerprint, short_repr
        for i, f in enumerate(sorted(os.listdir(cdir))):
            with open(os.path.join(cdir, f), 'rb') as fp:
                data = fp.read()
            ctx.nontrivial.add(fingerprint(('corpus', data.hex())))
            if i % 97 == 0 and len(ctx.samples) < 4:
                ctx.samples.append(short_repr(data, 300))
    finally:
        shutil.rmtree(work, ignore_errors=True)
