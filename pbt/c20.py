"""
C20 - ValueMapping implements the DSP0004 ValueMap/Values semantics.
DESIGN.md 4.20.

A generated case is a *mapping recipe* (plain data): integer type, element
kind (property / method / parameter), ValueMap entries (or no ValueMap),
Values strings, values_default, and how the factory is called.  The oracle
builds the class in a FakedWBEMConnection, creates the ValueMapping through
the public factory and compares tovalues() / tobinary() / items() with the
reference model below (statement of C20 + class docstring of ValueMapping).

Sub-check history: what a ValueMapping does is a function of the qualifier
pair as defined in the class and of the values_default of its own factory
call - not of the ValueMappings created before or after it.  One class with
a value-mapped property, method and parameter is served either by the mock
connection (a new class object per GetClass) or by a WBEMConnection with a
client-side class cache that hands out the same class object (or a
CIMClass.copy() of it, which shares the qualifier value lists) every time;
the steps create ValueMappings for the three elements with varying
values_default, look at earlier ValueMappings again and redefine elements.
Each creation is judged by the same model as in sub-check mapping; a failure
that the same call on a new class object does not show is reported as
after-earlier-factory-calls:<signature>, one that an earlier ValueMapping
shows only later as after-later-factory-calls:<signature>; in addition the
class the connection serves must keep the qualifier values it was defined
with, and ValueMapping.element must show the qualifiers as defined.
"""

import re
import bisect

from hypothesis import strategies as st

import pywbem
import pywbem_mock
from pywbem import (CIMClass, CIMProperty, CIMMethod, CIMParameter,
                    CIMQualifier, CIMQualifierDeclaration, ValueMapping,
                    ModelError, WBEMServer)

from .runner import Sub
from . import strategies as S

PROPERTY = 'C20'
RULE = (
    "A case is one generated value mapping: integer type x element kind "
    "(property, method return, parameter; scalar/array) x ValueMap of 0..8 "
    "entries from the DSP0004 integerValueMapEntry grammar (single values "
    "and range ends in decimal/binary/octal/hex with optional sign, closed "
    "ranges, ranges open at either end, the unclaimed marker '..'; entries "
    "drawn around a common window so that they touch/overlap, in sorted or "
    "arbitrary order, boosted at the type limits) or no ValueMap at all x "
    "Values array of equal/shorter/longer size (unique strings) x "
    "values_default None or a string x access through WBEMConnection or "
    "WBEMServer.  Sub-check mapping: for 8- and 16-bit types tovalues(v) "
    "for EVERY v of the type is compared with the model (16-bit mappings "
    "are ~3 % of the cases because one costs up to 1 s); for 32/64-bit "
    "types v = every segment boundary of the model, +-1, the segment "
    "middle, the type limits and 200 pseudo-random points derived from a "
    "drawn seed; always also tovalues(list/tuple/CIM typed/None/non-int), "
    "tobinary() for every Values string and for a foreign string, items(), "
    "documented attributes.  Sub-check malformed: one malformed ValueMap "
    "entry (fixed list of near-misses of the grammar + arbitrary text that a "
    "harness-side ABNF recogniser rejects), NULL qualifier values, missing "
    "Values, non-integer element type, missing element.  Sub-check history: "
    "a case is a history of 1..12 (thorough: 24) steps on one class that has "
    "a value-mapped property, method and parameter (three mapping recipes "
    "as above, 40 % of the equal-sized pairs made shorter/longer by 1..3 "
    "Values items) x class source (mock connection: new class object per "
    "GetClass; caching WBEMConnection handing out the same class object; "
    "the same handing out CIMClass.copy()) x WBEMConnection/WBEMServer.  "
    "Steps: create a ValueMapping for one of the elements (half of the time "
    "one that was used before) with values_default None/'dflt'/'other'/''/"
    "'Unknown' (= every combination first call x later call of given/not "
    "given/another default, counted as create:again:... classes); probe an "
    "earlier ValueMapping again (full comparison with its model); redefine "
    "an element.  Per creation: the comparison of sub-check mapping at the "
    "segment boundaries and 200 points, same call = same result, class "
    "definition unchanged.  Non-trivial = "
    "mapping with an open range next to another entry, or a Values/ValueMap "
    "size mismatch with values_default given, or a non-decimal notation; for "
    "malformed: every case; for history: one element definition used with "
    "two or more different values_default.  Distinct = distinct recipe / "
    "distinct history.")
ASSUMPTIONS = [
    "ValueMap numbers are generated inside the value range of the element's "
    "type (DSP0004: the represented value is constrained by the data type); "
    "explicit ranges have low <= high",
    "user supplied Values strings are unique (duplicates make tobinary() "
    "ill-defined); duplicates only arise from values_default padding or from "
    "values_default being equal to a Values string",
    "open range ends are resolved as the ValueMapping class docstring shows: "
    "low end = high end of the previous entry + 1 (type minimum for the "
    "first entry), high end = low end of the next entry - 1 (type maximum for "
    "the last entry).  Where the facing end of the neighbour is open as well "
    "or the neighbour is '..', that rule gives no number: the model then "
    "accepts any bound (and a ModelError/ValueError at creation); the same "
    "for open ranges that the rule resolves to an empty range (low > high)",
    "a value claimed by several ranges may be reported with the Values "
    "string of any of them; a value equal to a single-value entry must be "
    "reported with the string of a single-value entry (or of a range whose "
    "ends both equal the value)",
    "tobinary() of a range whose ends are equal may return the number or the "
    "pair; the Python class of returned numbers is not asserted",
    "the element is defined in the class that is asked for (no inheritance: "
    "qualifier propagation belongs to C12)",
    "history: the `server` argument is documented as WBEMConnection or "
    "WBEMServer; a WBEMConnection subclass whose GetClass() answers from a "
    "client-side cache (same CIMClass object, or a CIMClass.copy()) is such "
    "a connection.  The factories document values_default as adjusting the "
    "Values array for the ValueMapping and ModelError for values_default="
    "None whenever the arrays differ in size - nothing allows them to alter "
    "the class they retrieve, so a later factory call sees the definition "
    "as it was",
    "history: ValueMapping.element is 'the mapped CIM element', i.e. it "
    "carries the ValueMap/Values qualifier values of the class definition "
    "(not the adjusted array); only these two qualifier values and the type "
    "are compared",
    "history: for mappings the neighbour rule leaves undefined (see above) "
    "either outcome is accepted, but identical factory calls on an unchanged "
    "definition must give the same outcome and the same items()",
    "history: octal numbers containing the digit 0 are written in decimal "
    "(keeps the known finding create:octal-number-with-digit-0-rejected out "
    "of the histories; sub-check mapping reports it)",
]
SENSITIVITY = [
    "_values_tuple: 'lo = previous_hi + 1' -> 'previous_hi' -> "
    "mapping/tobinary:range-low-end-wrong(open-after-previous) (+ items:, "
    "tovalues:single-value-entry-loses-against-range)",
    "_values_tuple: 'hi = next_lo - 1' -> 'next_lo' -> "
    "mapping/tobinary:range-high-end-wrong(open-before-next)",
    "_values_tuple: 'lo = cimtype.minvalue' -> 'lo = 0' -> "
    "mapping/tobinary:range-low-end-wrong(open-first-entry), "
    "tovalues:range-member-rejected:at-low-end(open-first-entry)",
    "_tovalues_single: 'lo <= element_value <= hi' -> 'lo < ...' -> "
    "mapping/tovalues:range-member-rejected:at-low-end(explicit)",
    "_tovalues_single: unclaimed '..' consulted before the ranges -> "
    "mapping/tovalues:range-member-given-to-unclaimed:inside",
    "_integerValue_to_int: octal parsed with base 10 -> "
    "mapping/tobinary:single-value-wrong(explicit-oct)",
    "_utils.DECIMAL_VALUE accepts leading zeros -> "
    "malformed/malformed:entry-accepted",
    "items(): iterate sorted(self._v2b_dict) -> "
    "mapping/items:not-in-qualifier-order",
    "_create_for_element (with the truncation fix): 'del values_list["
    "valuemap_size:]' -> 'del values_list[:values_size - valuemap_size]' "
    "-> mapping/values-default:Values-array-adjusted-wrongly",
    "_create_for_element: default padding put in front of the Values "
    "items -> mapping/values-default:Values-array-adjusted-wrongly",
    "_create_for_element: size check skipped when values_default is None "
    "-> mapping/create:size-mismatch-without-default-accepted, "
    "malformed/malformed:size-accepted",
    "_create_for_element: integer-type check disabled -> "
    "malformed/malformed:non-integer-type-accepted",
    "_create_for_element: 'values_list = list(values_qual.value)' -> "
    "'values_list = values_qual.value' (values_default adjustment done on "
    "the qualifier of the retrieved class) -> history/after-earlier-"
    "factory-calls:create:size-mismatch-without-default-accepted, history/"
    "after-earlier-factory-calls:values-default:Values-array-adjusted-"
    "wrongly, history/history:factory-call-changed-class-definition(Values), "
    "history/ + mapping/attributes:element-differs-from-class-definition"
    "(Values)",
    "_create_for_element: ValueMappings memoised per (connection, class, "
    "element) and handed out again when the first call had a values_default "
    "-> history/after-earlier-factory-calls:create:size-mismatch-without-"
    "default-accepted, ...:attributes:values_default, ...:values-default:"
    "Values-array-adjusted-wrongly, ...:tovalues:*/items:* (stale "
    "definition after a redefine step)",
]

NS = 'root/cimv2'
CLASSNAME = 'TST_VM'

RAISE = ('<ValueError>',)   # member of an acceptable set: tovalues may raise

# ---------------------------------------------------------------------------
# rendering of entries (recipe -> ValueMap string)

NOTATIONS = ['dec', 'dec+', 'hex', 'HEX', 'hex+', 'bin', 'BIN', 'oct', 'oct+']


def render_num(num):
    "num = (value, notation)"
    v, nota = num
    a = abs(v)
    sign = '-' if v < 0 else ('+' if nota.endswith('+') else '')
    base = nota.rstrip('+')
    if base == 'dec':
        body = str(a)
    elif base == 'hex':
        body = '0x%x' % a
    elif base == 'HEX':
        body = '0X%X' % a
    elif base == 'bin':
        body = bin(a)[2:] + 'b'
    elif base == 'BIN':
        body = bin(a)[2:] + 'B'
    elif base == 'oct':
        body = '0' + oct(a)[2:]     # DSP0004: "0" 1*octalDigit
    else:
        raise ValueError(nota)
    return sign + body


def render_entry(e):
    if e[0] == 's':
        return render_num(e[1])
    if e[0] == 'u':
        return '..'
    if e[0] == 'r':
        return ('' if e[1] is None else render_num(e[1])) + '..' + \
            ('' if e[2] is None else render_num(e[2]))
    if e[0] == 'raw':
        return e[1]
    raise ValueError(e)


def entry_nums(e):
    if e[0] == 's':
        return [e[1]]
    if e[0] == 'r':
        return [n for n in (e[1], e[2]) if n is not None]
    return []


def is_oct_with_zero(num):
    "octal spelling that contains the digit 0 behind the leading 0"
    return num[1].startswith('oct') and '0' in oct(abs(num[0]))[2:]


# Harness-side recogniser of DSP0004 integerValue / integerValueMapEntry
# (ABNF of DSP0004 annex A); independent of pywbem's patterns.
_INTVAL = (r'[+-]?(?:[01]+[bB]|0[0-7]+|0[xX][0-9a-fA-F]+|[1-9][0-9]*|0)')
INTVAL_RE = re.compile(r'\A' + _INTVAL + r'\Z')
ENTRY_RE = re.compile(r'\A(?:%s|(?:%s)?\.\.(?:%s)?)\Z' %
                      (_INTVAL, _INTVAL, _INTVAL))


# ---------------------------------------------------------------------------
# reference model

class Model:
    """
    entries: list of entry recipes; values: adjusted Values list (same size).
    Per entry: kind, lo, hi (None = not determined by the rule), how the
    ends were obtained, Values string.
    """

    def __init__(self, typ, entries, values):
        self.tmin, self.tmax = S.INT_RANGE[typ]
        self.values = values
        n = len(entries)
        self.ent = []
        for i, e in enumerate(entries):
            d = dict(kind=e[0], s=values[i], lo=None, hi=None, lo_how=None,
                     hi_how=None, i=i)
            if e[0] == 's':
                d['lo'] = d['hi'] = e[1][0]
                d['lo_how'] = d['hi_how'] = 'explicit-' + e[1][1].rstrip('+')
            elif e[0] == 'r':
                if e[1] is not None:
                    d['lo'] = e[1][0]
                    d['lo_how'] = 'explicit-' + e[1][1].rstrip('+')
                elif i == 0:
                    d['lo'] = self.tmin
                    d['lo_how'] = 'open-first-entry'
                else:
                    d['lo_how'] = 'open-after-previous'
                    p = entries[i - 1]
                    if p[0] == 's':
                        d['lo'] = p[1][0] + 1
                    elif p[0] == 'r' and p[2] is not None:
                        d['lo'] = p[2][0] + 1
                if e[2] is not None:
                    d['hi'] = e[2][0]
                    d['hi_how'] = 'explicit-' + e[2][1].rstrip('+')
                elif i == n - 1:
                    d['hi'] = self.tmax
                    d['hi_how'] = 'open-last-entry'
                else:
                    d['hi_how'] = 'open-before-next'
                    x = entries[i + 1]
                    if x[0] == 's':
                        d['hi'] = x[1][0] - 1
                    elif x[0] == 'r' and x[1] is not None:
                        d['hi'] = x[1][0] - 1
            self.ent.append(d)
        self.ranges = [d for d in self.ent if d['kind'] == 'r']
        self.singles = [d for d in self.ent if d['kind'] == 's']
        self.unclaimed = [d['s'] for d in self.ent if d['kind'] == 'u']
        # rule gives no number for some end
        self.ambiguous = any(d['lo'] is None or d['hi'] is None
                             for d in self.ranges)
        # rule gives an empty range
        self.empty = any(d['lo'] is not None and d['hi'] is not None and
                         d['lo'] > d['hi'] for d in self.ranges)
        self.open_next_to_entry = any(
            d['lo_how'] == 'open-after-previous' or
            d['hi_how'] == 'open-before-next' for d in self.ranges)

    def determined(self, d):
        return d['lo'] is not None and d['hi'] is not None

    def span(self, d):
        "interval a range may cover at most"
        lo = self.tmin if d['lo'] is None else d['lo']
        hi = self.tmax if d['hi'] is None else d['hi']
        return lo, hi

    def claim(self, v):
        """
        Returns (acceptable, why): acceptable = set of Values strings and/or
        RAISE; why = ('exact'|'range'|'fallback', entry or None)
        """
        exact = [d for d in self.singles if d['lo'] == v]
        if exact:
            acc = set(d['s'] for d in exact)
            acc.update(d['s'] for d in self.ranges
                       if d['lo'] == v and d['hi'] == v)
            # a range with an undetermined end may turn out to be v..v
            acc.update(d['s'] for d in self.ranges
                       if not self.determined(d) and v in (d['lo'], d['hi']))
            return acc, ('exact', exact[0])
        certain = [d for d in self.ranges if self.determined(d) and
                   d['lo'] <= v <= d['hi']]
        possible = [d for d in self.ranges if not self.determined(d) and
                    self.span(d)[0] <= v <= self.span(d)[1]]
        acc = set(d['s'] for d in certain)
        acc.update(d['s'] for d in possible)
        if certain:
            return acc, ('range', certain[0])
        if self.unclaimed:
            acc.update(self.unclaimed)
        else:
            acc.add(RAISE)
        return acc, ('fallback', None)

    def segments(self):
        "sorted list of (a, b) half-open, claim() is constant on each"
        cuts = {self.tmin, self.tmax + 1}
        for d in self.ent:
            if d['kind'] == 'u':
                continue
            for x in (d['lo'], None if d['hi'] is None else d['hi'] + 1):
                if x is not None and self.tmin < x <= self.tmax:
                    cuts.add(x)
        cuts = sorted(cuts)
        return list(zip(cuts[:-1], cuts[1:]))


def adjusted_values(n_map, values, default):
    "Values list adjusted to the ValueMap size (None: sizes differ, no default)"
    if len(values) == n_map:
        return list(values)
    if default is None:
        return None
    if len(values) > n_map:
        return list(values[:n_map])
    return list(values) + [default] * (n_map - len(values))


# ---------------------------------------------------------------------------
# building the class and the ValueMapping

_CONN = None


def _conn():
    global _CONN
    if _CONN is None:
        conn = pywbem_mock.FakedWBEMConnection(default_namespace=NS)
        scopes = {'PROPERTY': True, 'METHOD': True, 'PARAMETER': True}
        conn.add_cimobjects([
            CIMQualifierDeclaration('ValueMap', 'string', is_array=True,
                                    scopes=scopes, tosubclass=True,
                                    overridable=True),
            CIMQualifierDeclaration('Values', 'string', is_array=True,
                                    scopes=scopes, tosubclass=True,
                                    overridable=True, translatable=True)])
        _CONN = conn
    return _CONN


def _other_quals():
    return [CIMQualifier('ValueMap', ['9', '..'], type='string'),
            CIMQualifier('Values', ['other nine', 'other rest'],
                         type='string')]


def make_vm(rec, valuemap, values):
    """
    valuemap: list of str / None (no qualifier) ; values: list / None.
    ('null',) in place of a list = qualifier present with NULL value.
    Returns the ValueMapping (exceptions of the factory propagate).
    """
    conn = _conn()
    quals = []
    if valuemap is not None:
        quals.append(CIMQualifier(
            'ValueMap', None if valuemap == ('null',) else list(valuemap),
            type='string'))
    if values is not None:
        quals.append(CIMQualifier(
            'Values', None if values == ('null',) else list(values),
            type='string'))
    typ = rec['type']
    kind = rec['kind']
    arr = rec['is_array']
    if kind == 'property':
        cls = CIMClass(CLASSNAME, properties=[
            CIMProperty('Other', None, type='uint8',
                        qualifiers=_other_quals()),
            CIMProperty('Pvm', None, type=typ, is_array=arr,
                        qualifiers=quals)])
    elif kind == 'method':
        cls = CIMClass(CLASSNAME, methods=[
            CIMMethod('Mvm', return_type=typ, qualifiers=quals, parameters=[
                CIMParameter('Par', type='uint8',
                             qualifiers=_other_quals())])])
    else:
        cls = CIMClass(CLASSNAME, methods=[
            CIMMethod('Mvm', return_type='uint32',
                      qualifiers=_other_quals(), parameters=[
                          CIMParameter('Other', type='uint8',
                                       qualifiers=_other_quals()),
                          CIMParameter('Par', type=typ, is_array=arr,
                                       qualifiers=quals)])])
    try:
        conn.DeleteClass(CLASSNAME, namespace=NS)
    except pywbem.CIMError:
        pass
    conn.add_cimobjects([cls], namespace=NS)
    return call_factory(conn, rec)


def call_factory(conn, rec):
    """
    The factory call of the recipe (element kind, via, namespace,
    values_default) for the class CLASSNAME that `conn` serves.
    """
    kind = rec['kind']
    server = WBEMServer(conn) if rec['via'] == 'server' else conn
    ns = NS if rec['ns'] else None
    default = rec['default']
    missing = rec.get('missing')
    if kind == 'property':
        name = 'Nope' if missing else 'Pvm'
        vm = ValueMapping.for_property(server, ns, CLASSNAME, name, default)
    elif kind == 'method':
        name = 'Nope' if missing else 'Mvm'
        vm = ValueMapping.for_method(server, ns, CLASSNAME, name, default)
    else:
        mname = 'Nope' if missing == 'method' else 'Mvm'
        pname = 'Nope' if missing == 'parameter' else 'Par'
        vm = ValueMapping.for_parameter(server, ns, CLASSNAME, mname, pname,
                                        default)
    return vm


# ---------------------------------------------------------------------------
# strategies

_VALUES_POOL = ['Unknown', 'Other', 'OK', 'Error', 'DMTF Reserved',
                'Vendor Reserved', 'zero', 'one', 'two-four', '', ' ',
                'a', 'b', 'c', 'd', 'e', 'f', 'g', 'h', 'i', 'j', 'k',
                'Ünknown', '日本', 'x..y', '..', '0', '1', 'None']


def _values_strings(n):
    return st.lists(
        st.one_of(st.sampled_from(_VALUES_POOL),
                  st.text(alphabet='abcXYZ012 .-_', max_size=6)),
        min_size=n, max_size=n, unique=True)


@st.composite
def mapping_recipe(draw, types):
    typ = draw(st.sampled_from(types))
    tmin, tmax = S.INT_RANGE[typ]
    # window in which most numbers fall, so that entries touch and overlap
    centre = draw(st.one_of(
        st.sampled_from([tmin, tmax, 0, 5, (tmin + tmax) // 2]),
        st.integers(tmin, tmax)))
    wlo = max(tmin, centre - 12)
    whi = min(tmax, centre + 12)
    edges = [tmin, tmin + 1, tmax - 1, tmax]
    value = st.one_of(st.integers(wlo, whi), st.integers(wlo, whi),
                      st.integers(wlo, whi), st.sampled_from(edges),
                      st.integers(tmin, tmax))
    notation = st.sampled_from(['dec'] * 8 + NOTATIONS)
    num = st.tuples(value, notation)

    def closed(a, b):
        if a[0] > b[0]:
            a, b = b, a
        return ('r', a, b)
    entry = st.one_of(
        st.tuples(st.just('s'), num), st.tuples(st.just('s'), num),
        st.tuples(st.just('s'), num),
        st.builds(closed, num, num), st.builds(closed, num, num),
        st.tuples(st.just('r'), st.none(), num),
        st.tuples(st.just('r'), num, st.none()),
        st.tuples(st.just('r'), st.none(), num),
        st.tuples(st.just('r'), num, st.none()),
        st.just(('u',)))
    entries = draw(st.lists(entry, min_size=0, max_size=8))
    order = draw(st.sampled_from(['sorted', 'sorted', 'asdrawn']))
    if order == 'sorted':
        # ascending by the first explicit number; '..' entries go to the end
        # (the usual shape in CIM schemas) or stay where they are
        keep_u = draw(st.booleans())
        us = [e for e in entries if e[0] == 'u']
        rest = sorted([e for e in entries if e[0] != 'u'],
                      key=lambda e: (entry_nums(e)[0][0],
                                     e[0] == 'r' and e[1] is not None))
        if keep_u and us:
            pos = draw(st.integers(0, len(rest)))
            entries = rest[:pos] + us[:1] + rest[pos:] + us[1:]
        else:
            entries = rest + us
    has_map = draw(st.sampled_from([True] * 7 + [False]))
    n = len(entries)
    if not has_map:
        n = draw(st.integers(0, 6))
        entries = None
    delta = draw(st.sampled_from([0, 0, 0, 0, 0, -1, -2, -3, 1, 2, 3, 5]))
    if not has_map:
        delta = 0
    nvals = max(0, n + delta)
    values = draw(_values_strings(nvals))
    if nvals != n:
        default = draw(st.sampled_from(['dflt', 'dflt', 'dflt', None, '',
                                        'Unknown']))
    else:
        default = draw(st.sampled_from([None, None, 'dflt']))
    kind = draw(st.sampled_from(['property', 'method', 'parameter']))
    is_array = False if kind == 'method' else draw(st.booleans())
    return dict(type=typ, entries=entries, values=values, default=default,
                kind=kind, is_array=is_array,
                via=draw(st.sampled_from(['conn', 'server'])),
                ns=draw(st.booleans()),
                seed=draw(st.integers(0, 2 ** 32 - 1)))


# 16-bit mappings cost up to 1 s each (65536 lookups, most of them raising
# ValueError), so they get a smaller share
TYPE_MIX = ['uint8'] * 20 + ['sint8'] * 20 + ['uint16', 'sint16'] + \
    ['uint32', 'sint32', 'uint64', 'sint64'] * 10
SMALL_TYPES = ('uint8', 'sint8', 'uint16', 'sint16')


def mapping_strategy():
    return mapping_recipe(TYPE_MIX)


# ---------------------------------------------------------------------------
# oracle for well-formed mappings

def _lcg_points(seed, n, lo, hi):
    x = seed & 0xFFFFFFFFFFFFFFFF
    span = hi - lo + 1
    for _ in range(n):
        x = (x * 6364136223846793005 + 1442695040888963407) & \
            0xFFFFFFFFFFFFFFFF
        y = (x * 6364136223846793005 + 1442695040888963407) & \
            0xFFFFFFFFFFFFFFFF
        yield lo + ((x << 64) | y) % span
        x = y


class _Once:
    "report each signature once per mapping (keeps 65536-value loops cheap)"

    def __init__(self, ctx):
        self.ctx = ctx
        self.seen = set()

    def fail(self, sig, detail):
        if sig not in self.seen:
            self.seen.add(sig)
            self.ctx.fail(sig, detail)


def _entry_of_string(model, s, v=None):
    "entry that has Values string s (the one that explains v, if several)"
    ds = [d for d in model.ent if d['s'] == s]
    if not ds:
        return None
    for d in ds:
        if d['kind'] != 'u' and v is not None and \
                model.span(d)[0] <= v <= model.span(d)[1]:
            return d
    for d in ds:
        if d['kind'] == 'u':
            return d
    return ds[0]


def _how(how):
    "how an end was obtained, without the notation"
    return how.split('-')[0] if how.startswith('explicit') else how


def _pos(model, d, v):
    lo, hi = model.span(d)
    if v == lo:
        return 'at-low-end(%s)' % _how(d['lo_how'])
    if v == hi:
        return 'at-high-end(%s)' % _how(d['hi_how'])
    if lo < v < hi:
        return 'inside'
    if v == lo - 1:
        return 'one-below-low-end(%s)' % _how(d['lo_how'])
    if v == hi + 1:
        return 'one-above-high-end(%s)' % _how(d['hi_how'])
    return 'outside'


def _classify_tovalues(model, v, got, acc, why):
    if got is RAISE:
        if why[0] == 'exact':
            return 'tovalues:single-value-entry-not-found(%s)' % \
                why[1]['lo_how']
        if why[0] == 'range':
            return 'tovalues:range-member-rejected:' + _pos(model, why[1], v)
        return 'tovalues:unclaimed-entry-not-used'
    d = _entry_of_string(model, got, v)
    if d is None:
        return 'tovalues:string-not-in-Values'
    gk = {'s': 'single', 'r': 'range', 'u': 'unclaimed'}[d['kind']]
    if why[0] == 'exact':
        return 'tovalues:single-value-entry-loses-against-' + gk
    if why[0] == 'range':
        if d['kind'] == 'r':
            return 'tovalues:range-member-given-to-other-range:' + \
                _pos(model, d, v)
        return 'tovalues:range-member-given-to-%s:%s' % (
            gk, _pos(model, why[1], v))
    # expected unclaimed / ValueError
    if d['kind'] == 'r':
        return 'tovalues:value-outside-range-claimed-by-it:' + \
            _pos(model, d, v)
    return 'tovalues:unclaimed-value-given-to-' + gk


def _tv(vm, v):
    try:
        return vm.tovalues(v)
    except ValueError:
        return RAISE


def _check_tovalues(once, vm, model, v, acc, why, typed=None):
    got = _tv(vm, v if typed is None else typed(v))
    if got is not RAISE and not isinstance(got, str):
        once.fail('tovalues:result-not-a-string', '%r -> %r' % (v, got))
        return
    if got not in acc:
        once.fail(_classify_tovalues(model, v, got, acc, why),
                  'tovalues(%r) = %s, acceptable: %s' % (
                      v, 'ValueError' if got is RAISE else repr(got),
                      sorted('ValueError' if a is RAISE else repr(a)
                             for a in acc)))


def _bin_ok(model, d, got):
    "is `got` an acceptable tobinary()/items() value for entry d?"
    if d['kind'] == 'u':
        return got is None, 'unclaimed-entry-not-None'
    if d['kind'] == 's':
        ok = isinstance(got, int) and not isinstance(got, bool) and \
            got == d['lo']
        return ok, 'single-value-wrong(%s)' % d['lo_how']
    if isinstance(got, int) and not isinstance(got, bool):
        # a range whose ends are equal may be shown as the number
        ok = d['lo'] in (None, got) and d['hi'] in (None, got)
        return ok, 'range-entry-not-a-pair'
    if not (isinstance(got, tuple) and len(got) == 2 and
            all(isinstance(x, int) for x in got)):
        return False, 'range-entry-not-a-pair'
    if model.determined(d) and d['lo'] > d['hi']:
        # the neighbour rule gives an empty range: any empty pair will do
        return got[0] > got[1], 'empty-range-became-nonempty'
    if d['lo'] is not None and got[0] != d['lo']:
        return False, 'range-low-end-wrong(%s)' % d['lo_how']
    if d['hi'] is not None and got[1] != d['hi']:
        return False, 'range-high-end-wrong(%s)' % d['hi_how']
    return True, ''


def check_mapping(ctx, rec, vm, model, exhaustive, valuemap=(), conn=None):
    """
    valuemap: the ValueMap array as defined in the class (None: no ValueMap
    qualifier; (): not known to the caller); conn: the connection the
    factory was given (default: the shared mock connection).
    """
    once = _Once(ctx)
    typ = rec['type']
    T = S.INT_TYPES[typ]
    tmin, tmax = model.tmin, model.tmax
    segs = model.segments()
    nvals = 0

    # --- size adjustment: the Values strings in use are the first n Values
    # items, padded with values_default (everything else would follow from
    # a wrong adjustment, so it gets its own signature and ends the case)
    if len(rec['values']) != len(model.values):
        used = [it[1] for it in vm.items()
                if isinstance(it, tuple) and len(it) == 2]
        if used != model.values and \
                used != list(dict.fromkeys(model.values)):
            ctx.fail('values-default:Values-array-adjusted-wrongly',
                     'Values %r default %r for %d ValueMap entries: items() '
                     '= %r' % (rec['values'], rec['default'],
                               len(model.values), list(vm.items())))
            return

    # --- tovalues
    claims = [model.claim(a) for a, _ in segs]
    if exhaustive:
        tovalues = vm.tovalues
        for (a, b), (acc, why) in zip(segs, claims):
            for v in range(a, b):
                try:
                    got = tovalues(v)
                except ValueError:
                    got = RAISE
                if got not in acc:
                    _check_tovalues(once, vm, model, v, acc, why)
            nvals += b - a
    points = []
    for (a, b), cl in zip(segs, claims):
        for v in sorted({a, a + 1, (a + b) // 2, b - 2, b - 1}):
            if a <= v < b:
                points.append((v, cl))
    for v, (acc, why) in points:
        if not exhaustive:
            _check_tovalues(once, vm, model, v, acc, why)
        _check_tovalues(once, vm, model, v, acc, why, typed=T)
    nvals += len(points)
    if not exhaustive:
        starts = [a for a, _ in segs]
        for v in _lcg_points(rec['seed'], 200, tmin, tmax):
            k = bisect.bisect_right(starts, v) - 1
            acc, why = claims[k]
            _check_tovalues(once, vm, model, v, acc, why)
        nvals += 200
    ctx.event('values-looked-up', nvals)

    # list / tuple / None forms
    if vm.tovalues(None) is not None:
        once.fail('tovalues:None-not-None', repr(vm.tovalues(None)))
    good = [(v, cl) for v, cl in points if RAISE not in cl[0]][:6]
    if good:
        for form in (list, tuple):
            arg = form(T(v) if k % 2 else v for k, (v, _) in enumerate(good))
            got = _tv(vm, arg)
            if not isinstance(got, list) or len(got) != len(good) or \
                    any(g not in cl[0] for g, (_, cl) in zip(got, good)):
                once.fail('tovalues:list-form-differs-from-single-lookups',
                          'tovalues(%r) = %r' % (arg, got))
    bad = [v for v, cl in points if cl[0] == {RAISE}][:1]
    if bad:
        arg = [v for v, _ in good[:2]] + bad
        if _tv(vm, arg) is not RAISE:
            once.fail('tovalues:list-with-unmapped-value-accepted',
                      'tovalues(%r) = %r' % (arg, vm.tovalues(arg)))
    for wrong in ('1', 1.0, b'1'):
        try:
            r = vm.tovalues(wrong)
        except TypeError:
            pass
        except ValueError as exc:
            once.fail('tovalues:non-integer-argument-raises-ValueError',
                      '%r: %r' % (wrong, exc))
        else:
            once.fail('tovalues:non-integer-argument-accepted',
                      'tovalues(%r) = %r' % (wrong, r))

    # --- tobinary
    by_string = {}
    for d in model.ent:
        by_string.setdefault(d['s'], []).append(d)
    for s in sorted(by_string):
        ds = by_string[s]
        try:
            got = vm.tobinary(s)
        except ValueError as exc:
            once.fail('tobinary:Values-string-not-found', '%r: %s' % (s, exc))
            continue
        res = [_bin_ok(model, d, got) for d in ds]
        if not any(ok for ok, _ in res):
            once.fail('tobinary:' + res[-1][1],
                      'tobinary(%r) = %r, entry %r' % (
                          s, got, [(d['i'], d['lo'], d['hi']) for d in ds]))
            continue
        # members map back to s unless another entry claims them too
        if isinstance(got, tuple) and len(ds) == 1 and got[0] <= got[1]:
            for v in sorted({got[0], got[1], (got[0] + got[1]) // 2}):
                if tmin <= v <= tmax:
                    acc, _ = model.claim(v)
                    if acc == {s} and _tv(vm, v) != s:
                        once.fail('tobinary:range-member-does-not-map-back',
                                  'tobinary(%r) = %r but tovalues(%r) = %r'
                                  % (s, got, v, _tv(vm, v)))
        elif isinstance(got, int) and len(ds) == 1 and tmin <= got <= tmax:
            acc, _ = model.claim(got)
            if acc == {s} and _tv(vm, got) != s:
                once.fail('tobinary:value-does-not-map-back',
                          'tobinary(%r) = %r but tovalues(%r) = %r' % (
                              s, got, got, _tv(vm, got)))
    foreign = 'not a Values string ☃'
    try:
        r = vm.tobinary(foreign)
    except ValueError:
        pass
    else:
        once.fail('tobinary:foreign-string-accepted', repr(r))
    try:
        r = vm.tobinary(1)
    except TypeError:
        pass
    else:
        once.fail('tobinary:non-string-accepted', repr(r))

    # --- items
    items = list(vm.items())
    dup = len(by_string) != len(model.ent)
    if len(items) != len(model.ent):
        if dup and len(items) == len(by_string):
            once.fail('items:entries-sharing-a-Values-string-are-dropped',
                      '%d ValueMap entries, items() = %r' % (
                          len(model.ent), items))
        else:
            once.fail('items:wrong-number-of-entries',
                      '%d ValueMap entries, items() = %r' % (
                          len(model.ent), items))
    else:
        for d, it in zip(model.ent, items):
            if not (isinstance(it, tuple) and len(it) == 2):
                once.fail('items:item-not-a-pair', repr(it))
                break
            if it[1] != d['s']:
                once.fail('items:not-in-qualifier-order',
                          'position %d: %r, expected Values string %r; '
                          'items() = %r' % (d['i'], it, d['s'], items))
                break
            ok, what = _bin_ok(model, d, it[0])
            if not ok:
                once.fail('items:' + what, 'position %d: %r (model lo=%r '
                          'hi=%r)' % (d['i'], it, d['lo'], d['hi']))
                break

    # --- attributes documented on the object
    exp = dict(classname=CLASSNAME, namespace=NS if rec['ns'] else None,
               values_default=rec['default'],
               propname='Pvm' if rec['kind'] == 'property' else None,
               methodname=None if rec['kind'] == 'property' else 'Mvm',
               parametername='Par' if rec['kind'] == 'parameter' else None)
    for k in sorted(exp):
        if getattr(vm, k) != exp[k]:
            once.fail('attributes:' + k, '%r != %r' % (getattr(vm, k),
                                                      exp[k]))
    if vm.conn is not (_conn() if conn is None else conn):
        once.fail('attributes:conn', repr(vm.conn))
    want_cls = {'property': CIMProperty, 'method': CIMMethod,
                'parameter': CIMParameter}[rec['kind']]
    if not isinstance(vm.element, want_cls):
        once.fail('attributes:element', repr(vm.element))
        return
    # "the mapped CIM element": its two qualifiers are the ones the class
    # defines - not the Values array adjusted for values_default, which is
    # private to the ValueMapping
    diff = element_differs(vm.element, rec, valuemap)
    if diff:
        once.fail('attributes:element-differs-from-class-definition(%s)' %
                  diff[0], diff[1])


def element_differs(element, rec, valuemap=()):
    """
    Compares a mapped element (of a ValueMapping or of a class) with its
    definition in the recipe: None or (what, detail).
    """
    typ = element.return_type if isinstance(element, CIMMethod) \
        else element.type
    if typ != rec['type']:
        return 'type', '%r, defined %r' % (typ, rec['type'])
    quals = element.qualifiers
    got = quals['Values'].value if 'Values' in quals else '<no qualifier>'
    if got != list(rec['values']):
        return 'Values', 'Values qualifier of the element: %r, defined: ' \
            '%r (values_default %r)' % (got, rec['values'], rec['default'])
    if valuemap != ():
        got = quals['ValueMap'].value if 'ValueMap' in quals else None
        if got != (None if valuemap is None else list(valuemap)):
            return 'ValueMap', 'ValueMap qualifier of the element: %r, ' \
                'defined: %r' % (got, valuemap)
    return None


def mapping_classes(rec, model, entries):
    cl = ['type:' + rec['type'], 'kind:' + rec['kind'] +
          ('[]' if rec['is_array'] else ''), 'via:' + rec['via']]
    if rec['entries'] is None:
        cl.append('valuemap:none')
    else:
        cl.append('valuemap:%d-entries' % min(len(entries), 8))
    nv, nm = len(rec['values']), len(entries)
    cl.append('values:equal' if nv == nm else
              'values:shorter' if nv < nm else 'values:longer')
    if nv != nm:
        cl.append('default:given' if rec['default'] is not None
                  else 'default:none')
    notas = set(n[1].rstrip('+') for e in entries for n in entry_nums(e))
    cl.extend('notation:' + n.lower() for n in sorted(set(
        x.lower() for x in notas)))
    if any(n[1].endswith('+') and n[0] >= 0 for e in entries
           for n in entry_nums(e)):
        cl.append('notation:plus-sign')
    if any(n[0] < 0 for e in entries for n in entry_nums(e)):
        cl.append('number:negative')
    tmin, tmax = S.INT_RANGE[rec['type']]
    if any(n[0] in (tmin, tmax) for e in entries for n in entry_nums(e)):
        cl.append('number:at-type-limit')
    kinds = set()
    for e in entries:
        if e[0] == 's':
            kinds.add('single')
        elif e[0] == 'u':
            kinds.add('unclaimed')
        elif e[1] is None:
            kinds.add('open-low')
        elif e[2] is None:
            kinds.add('open-high')
        else:
            kinds.add('closed')
    cl.extend('entry:' + k for k in sorted(kinds))
    if model is not None:
        if model.ambiguous:
            cl.append('shape:open-end-facing-open-end-or-unclaimed')
        if model.empty:
            cl.append('shape:open-range-resolves-empty')
        if model.open_next_to_entry and not model.ambiguous and \
                not model.empty:
            cl.append('shape:open-range-resolved-by-neighbour')
        det = [d for d in model.ent if d['kind'] != 'u' and
               model.determined(d) and d['lo'] <= d['hi']]
        overl = any(a['lo'] <= b['hi'] and b['lo'] <= a['hi']
                    for k, a in enumerate(det) for b in det[k + 1:])
        if overl:
            cl.append('shape:overlapping-entries')
        firsts = [entry_nums(e)[0][0] for e in entries if entry_nums(e)]
        if firsts != sorted(firsts):
            cl.append('shape:unordered')
        if len(set(model.values)) != len(model.values):
            cl.append('shape:duplicate-values-from-default')
    return cl


def _nontrivial(rec, model, entries):
    nondec = any(not n[1].startswith('dec') for e in entries
                 for n in entry_nums(e))
    mismatch = len(rec['values']) != len(entries) and \
        rec['default'] is not None
    return bool(nondec or mismatch or
                (model is not None and model.open_next_to_entry))


def expectation(rec):
    """
    (entries, valuemap, adj, model, shape_model) of a mapping recipe: the
    entries the model works with (0-based numbers if there is no ValueMap),
    the ValueMap array (None: no qualifier), the Values array adjusted for
    values_default (None: sizes differ and no default), the model (None with
    adj) and a model for the shape classes.
    """
    entries = rec['entries']
    if entries is None:
        entries = [('s', (i, 'dec')) for i in range(len(rec['values']))]
        valuemap = None
    else:
        valuemap = [render_entry(e) for e in entries]
    adj = adjusted_values(len(entries), rec['values'], rec['default'])
    model = Model(rec['type'], entries, adj) if adj is not None else None
    shape_model = model or Model(rec['type'], entries,
                                 [None] * len(entries))
    return entries, valuemap, adj, model, shape_model


def mapping_oracle(ctx, rec, exhaustive):
    entries, _, _, _, shape_model = expectation(rec)
    ctx.case(nontrivial=_nontrivial(rec, shape_model, entries),
             classes=mapping_classes(rec, shape_model, entries))
    run_creation(ctx, rec, exhaustive)


def run_creation(ctx, rec, exhaustive, make=make_vm, conn=None):
    """
    One factory call for the recipe + comparison of what comes out with the
    model.  make(rec, valuemap, values) does the call; ctx needs fail(),
    fail_exc() and event().  Returns (outcome, ValueMapping or None, model,
    ValueMap array the ValueMapping was created from).
    """
    entries, valuemap, adj, model, shape_model = expectation(rec)
    values = rec['values']
    retried = False
    while True:
        try:
            vm = make(rec, valuemap, values)
        except (ModelError, ValueError) as exc:
            if adj is None:
                ctx.event('outcome:size-mismatch-rejected')
                return 'size-mismatch-rejected', None, None, valuemap
            bad_oct = [render_num(n) for e in entries for n in entry_nums(e)
                       if is_oct_with_zero(n)]
            if not retried and isinstance(exc, ModelError) and \
                    any(repr(t) in str(exc) for t in bad_oct):
                ctx.fail('create:octal-number-with-digit-0-rejected',
                         'ValueMap %r: %s' % (valuemap, exc))
                # go on behind this defect: same mapping, those numbers in
                # decimal
                entries = [_redec(e) for e in entries]
                valuemap = [render_entry(e) for e in entries]
                retried = True
                continue
            if shape_model.ambiguous or shape_model.empty:
                # the neighbour rule does not define this mapping
                ctx.event('outcome:undefined-mapping-rejected')
                return 'undefined-mapping-rejected', None, None, valuemap
            ctx.fail('create:valid-mapping-rejected-' + type(exc).__name__,
                     'ValueMap %r Values %r default %r: %s' % (
                         valuemap, values, rec['default'], exc))
            return 'failed', None, None, valuemap
        except RecursionError as exc:
            if shape_model.ambiguous:
                ctx.fail('create:RecursionError-open-range-end-facing-open-'
                         'end-or-unclaimed-marker',
                         'ValueMap %r' % (valuemap,))
                return 'failed', None, None, valuemap
            ctx.fail_exc(exc, 'create')
            return 'failed', None, None, valuemap
        except IndexError as exc:
            if adj is not None and len(values) > len(entries):
                ctx.fail('create:IndexError-truncating-extra-Values-items',
                         'ValueMap %r Values %r default %r' % (
                             valuemap, values, rec['default']))
                return 'failed', None, None, valuemap
            ctx.fail_exc(exc, 'create')
            return 'failed', None, None, valuemap
        break
    if adj is None:
        ctx.fail('create:size-mismatch-without-default-accepted',
                 'ValueMap %r Values %r -> %r' % (valuemap, values,
                                                  list(vm.items())))
        return 'failed', vm, None, valuemap
    ctx.event('outcome:created')
    check_mapping(ctx, rec, vm, model, exhaustive, valuemap, conn)
    return 'created', vm, model, valuemap


def _redec(e):
    def f(n):
        return (n[0], 'dec') if n is not None and is_oct_with_zero(n) else n
    if e[0] == 's':
        return ('s', f(e[1]))
    if e[0] == 'r':
        return ('r', f(e[1]), f(e[2]))
    return e


def mapping_oracle_all(ctx, rec):
    mapping_oracle(ctx, rec, exhaustive=rec['type'] in SMALL_TYPES)


# ---------------------------------------------------------------------------
# malformed definitions

BAD_ENTRIES = [
    'a', '0x', '0X', '1...3', '1..2..3', '', ' ', ' 1', '1 ', '1\n', '1..3\n',
    '\n1', '0b', 'b', 'B', '12b', '2B', '08', '09', '0x1G', '0xx1', '1.0',
    '1e3', '--1', '+-1', '+', '-', '1,2', '１', '٣', '1_0', '0o7',
    '0b1', 'x80', '...', '....', '..-', '1..a', 'a..1', '1.. 2', '1 ..2',
    '0x..', '..0x', '1.', '.1', '1..2.', '1-3', 'NULL', 'TRUE', '1b..2',
    '1..+', '²', '1\x00', "'1'", '"1"', '1;', '0x1.', '1l', '1L', '1u',
]


@st.composite
def malformed_recipe(draw):
    what = draw(st.sampled_from(
        ['entry'] * 12 + ['null-valuemap', 'null-values', 'null-entry',
                          'no-values', 'non-integer-type', 'missing',
                          'size']))
    types = sorted(S.INT_TYPES)
    base = draw(mapping_recipe(types))
    # a base mapping that is itself fine: closed shapes only, equal sizes
    ents = [e for e in (base['entries'] or [])
            if e[0] == 's' or (e[0] == 'r' and e[1] is not None and
                               e[2] is not None)]
    ents = [_plain(e) for e in ents][:5]
    rec = dict(base, entries=ents, what=what, default=None,
               values=draw(_values_strings(len(ents))))
    if what == 'entry':
        text = draw(st.one_of(
            st.sampled_from(BAD_ENTRIES), st.sampled_from(BAD_ENTRIES),
            st.text(alphabet='0123456789abBxX+-. _', min_size=0, max_size=6),
            st.text(max_size=5)))
        pos = draw(st.integers(0, len(ents)))
        rec['entries'] = ents[:pos] + [('raw', text)] + ents[pos:]
        rec['values'] = draw(_values_strings(len(ents) + 1))
        rec['default'] = draw(st.sampled_from([None, None, 'dflt']))
    elif what == 'null-entry':
        pos = draw(st.integers(0, len(ents)))
        rec['entries'] = ents[:pos] + [('null',)] + ents[pos:]
        rec['values'] = draw(_values_strings(len(ents) + 1))
    elif what == 'non-integer-type':
        rec['type'] = draw(st.sampled_from(
            ['string', 'boolean', 'real32', 'real64', 'char16', 'datetime']))
    elif what == 'missing':
        rec['missing'] = 'method' if rec['kind'] == 'parameter' and \
            draw(st.booleans()) else rec['kind']
    elif what == 'size':
        delta = draw(st.sampled_from([-3, -2, -1, 1, 2, 3]))
        rec['values'] = draw(_values_strings(max(0, len(ents) + delta)))
        if len(rec['values']) == len(ents):
            rec['values'] = draw(_values_strings(len(ents) + 1))
    return rec


def _plain(e):
    "entry with every number in plain decimal (keeps known defects out)"
    if e[0] == 's':
        return ('s', (e[1][0], 'dec'))
    return ('r', (e[1][0], 'dec'), (e[2][0], 'dec'))


def malformed_oracle(ctx, rec):
    what = rec['what']
    entries = rec['entries']
    valuemap = [None if e[0] == 'null' else render_entry(e) for e in entries]
    values = rec['values']
    must_raise = True
    allowed = (ModelError, ValueError)
    cls = ['malformed:' + what]
    if what == 'entry':
        text = [e[1] for e in entries if e[0] == 'raw'][0]
        if ENTRY_RE.match(text):
            # arbitrary text happened to be a legal entry
            must_raise = False
            cls = ['malformed:entry-legal-after-all']
        elif text in BAD_ENTRIES:
            cls.append('malformed:entry-from-list')
        else:
            cls.append('malformed:entry-arbitrary-text')
    elif what == 'null-valuemap':
        valuemap = ('null',)
    elif what == 'null-values':
        values = ('null',)
    elif what == 'no-values':
        values = None
        if rec['ns'] and rec['via'] == 'server':
            valuemap = None
    elif what == 'missing':
        allowed = (KeyError,)
    ctx.case(nontrivial=True, classes=cls)
    try:
        vm = make_vm(rec, valuemap, values)
    except allowed:
        ctx.event('outcome:rejected')
        return
    except RecursionError as exc:
        ctx.fail_exc(exc, 'malformed')
        return
    except Exception as exc:  # pylint: disable=broad-except
        if what in ('null-valuemap', 'null-values', 'null-entry') and \
                isinstance(exc, TypeError):
            # one root cause: NULL is not expected anywhere in the two
            # qualifier values
            ctx.fail('malformed:TypeError-for-NULL-qualifier-value-or-item',
                     '%s: ValueMap %r Values %r: %r' % (what, valuemap,
                                                        values, exc))
        else:
            ctx.fail_exc(exc, 'malformed')
        return
    if not must_raise:
        ctx.event('outcome:accepted-legal')
        return
    if what == 'entry':
        text = [e[1] for e in entries if e[0] == 'raw'][0]
        if text.endswith('\n') and ENTRY_RE.match(text[:-1]):
            sig = 'malformed:entry-with-trailing-newline-accepted'
        elif re.match(r'\A\.\.\n\Z', text):
            sig = 'malformed:entry-with-trailing-newline-accepted'
        else:
            sig = 'malformed:entry-accepted'
        ctx.fail(sig, 'ValueMap %r accepted: items() = %r' % (
            valuemap, list(vm.items())))
    else:
        ctx.fail('malformed:%s-accepted' % what,
                 'ValueMap %r Values %r accepted: items() = %r' % (
                     valuemap, values, list(vm.items())))


# ---------------------------------------------------------------------------
# histories: several ValueMappings from one class definition

class ClassCacheConnection(pywbem.WBEMConnection):
    """
    A WBEMConnection with a client-side class cache: GetClass() hands out
    the cached class object itself ('same') or a CIMClass.copy() of it
    ('copy'; copies share the qualifier value lists with the original).
    Nothing is sent anywhere.
    """

    def __init__(self, mode):
        super().__init__('http://localhost', default_namespace=NS)
        self.mode = mode
        self.cached = None

    def GetClass(self, ClassName, namespace=None, **extra):
        # pylint: disable=invalid-name,arguments-differ,unused-argument
        if ClassName.lower() != CLASSNAME.lower() or \
                namespace not in (None, NS):
            raise pywbem.CIMError(pywbem.CIM_ERR_NOT_FOUND, ClassName)
        return self.cached if self.mode == 'same' else self.cached.copy()


HIST_KINDS = ('property', 'method', 'parameter')
HIST_SOURCES = ('cache-same-object', 'cache-copy', 'mock')
HIST_DEFAULTS = [None, None, None, 'dflt', 'dflt', 'other', '', 'Unknown']


def _defined_quals(edef):
    quals = []
    if edef['entries'] is not None:
        quals.append(CIMQualifier(
            'ValueMap', [render_entry(e) for e in edef['entries']],
            type='string'))
    quals.append(CIMQualifier('Values', list(edef['values']),
                              type='string'))
    return quals


def history_class(defs):
    "fresh class object with the three value-mapped elements"
    p, m, a = (defs[k] for k in HIST_KINDS)
    return CIMClass(CLASSNAME, properties=[
        CIMProperty('Other', None, type='uint8', qualifiers=_other_quals()),
        CIMProperty('Pvm', None, type=p['type'], is_array=p['is_array'],
                    qualifiers=_defined_quals(p))], methods=[
        CIMMethod('Mvm', return_type=m['type'],
                  qualifiers=_defined_quals(m), parameters=[
                      CIMParameter('Other', type='uint8',
                                   qualifiers=_other_quals()),
                      CIMParameter('Par', type=a['type'],
                                   is_array=a['is_array'],
                                   qualifiers=_defined_quals(a))])])


@st.composite
def element_def(draw, kind):
    base = draw(mapping_recipe(sorted(S.INT_TYPES)))
    entries = base['entries']
    if entries is not None:
        # keeps the known octal defect out of the histories
        entries = [_redec(e) for e in entries]
    values = base['values']
    n = len(values) if entries is None else len(entries)
    if entries is not None and len(values) == n and draw(S._I10) < 4:
        # more size mismatches than the single-mapping recipe has: they are
        # what values_default acts on
        k = draw(st.integers(1, 3))
        if n and draw(st.booleans()):
            values = values[:max(0, n - k)]
        else:
            values = values + ['extra %d' % i for i in range(k)]
    return dict(type=base['type'], entries=entries, values=values,
                is_array=False if kind == 'method' else base['is_array'])


class _Collector:
    """
    Stands in for ctx during one step: failures are collected so that the
    step can name those that only arise after other factory calls.
    """

    def __init__(self, ctx):
        self.ctx = ctx
        self.fails = []

    def fail(self, sig, detail):
        if sig not in [f[0] for f in self.fails]:
            self.fails.append((sig, detail))

    def fail_exc(self, exc, what='unexpected'):
        self.ctx.fail_exc(exc, what)

    def event(self, name, n=1):
        if self.ctx is not None:
            self.ctx.event(name, n)

    def sigs(self):
        return set(f[0] for f in self.fails)


class _Quiet(_Collector):
    "collector for the comparison run on a fresh class object"

    def fail_exc(self, exc, what='unexpected'):
        self.fail(what + ':' + type(exc).__name__, repr(exc))

    def event(self, name, n=1):
        pass


class History:
    """
    One class with a value-mapped property, method and parameter, served by
    a mock connection (new class object per GetClass) or by a connection
    that caches the class object; steps create ValueMappings with varying
    values_default, look at earlier ones again, or redefine an element.
    Every ValueMapping is judged by the definition at the time of its
    creation and its own values_default only.
    """

    def __init__(self, ctx):
        self.ctx = ctx
        self.defs = None
        self.source = None
        self.via = None
        self.conn = None
        self.calls = None       # kind -> values_defaults used on this def.
        self.first = None       # (kind, default, ns) -> (outcome, items)
        self.slots = None
        self.changed = None     # kinds whose definition was seen modified
        self.cls = None
        self.varied = False     # one definition used with >1 values_default

    def init_strategy(self):
        @st.composite
        def strat(draw):
            return dict(
                elems={k: draw(element_def(k)) for k in HIST_KINDS},
                source=draw(st.sampled_from(HIST_SOURCES)),
                via=draw(st.sampled_from(['conn', 'server'])))
        return strat()

    def setup(self, init):
        self.defs = dict(init['elems'])
        self.source = init['source']
        self.via = init['via']
        if self.source == 'mock':
            # own connection: the shared one belongs to the other sub-checks
            self.conn = pywbem_mock.FakedWBEMConnection(default_namespace=NS)
            self.conn.add_cimobjects(list(_conn().GetQualifier(q)
                                          for q in ('ValueMap', 'Values')))
        else:
            self.conn = ClassCacheConnection(self.source[6:].split('-')[0])
        self.calls = {k: [] for k in HIST_KINDS}
        self.first = {}
        self.slots = []
        self.changed = set()
        self.cls = set(['source:' + self.source, 'via:' + self.via])
        self._install()

    def _install(self):
        cls = history_class(self.defs)
        if self.source == 'mock':
            try:
                self.conn.DeleteClass(CLASSNAME, namespace=NS)
            except pywbem.CIMError:
                pass
            self.conn.add_cimobjects([cls], namespace=NS)
        else:
            self.conn.cached = cls

    def step_strategy(self):
        have_slots = bool(self.slots)
        used = [k for k in HIST_KINDS if self.calls[k]]

        @st.composite
        def strat(draw):
            r = draw(S._I100)
            if r < 12 and have_slots:
                return ('probe', draw(S._I10), draw(st.integers(0, 9999)))
            if used and draw(S._I10) < 5:
                # an element a ValueMapping was created for before
                kind = draw(st.sampled_from(used))
            else:
                kind = draw(st.sampled_from(HIST_KINDS))
            if r < 20:
                return ('redefine', kind, draw(element_def(kind)))
            return ('create', kind, draw(st.sampled_from(HIST_DEFAULTS)),
                    draw(st.booleans()), draw(st.integers(0, 9999)))
        return strat()

    # -- steps

    def _rec(self, kind, default, ns, seed):
        return dict(self.defs[kind], kind=kind, default=default, ns=ns,
                    via=self.via, seed=seed)

    def _situation(self, kind, default):
        "what this creation follows on the same definition"
        edef = self.defs[kind]
        n = len(edef['values']) if edef['entries'] is None \
            else len(edef['entries'])
        before = self.calls[kind]
        if not before:
            return 'first-for-this-definition'
        if len(edef['values']) == n:
            return 'again:sizes-equal'
        given = [d for d in before if d is not None]
        if not given:
            return 'again:sizes-differ:no-default-before'
        return 'again:sizes-differ:default-before:now-' + (
            'none' if default is None else
            'same-default' if default == given[-1] else 'other-default')

    def _create(self, kind, default, ns, seed):
        ctx = self.ctx
        rec = self._rec(kind, default, ns, seed)
        situation = self._situation(kind, default)
        ctx.event('create:' + situation)
        if situation.startswith('again:sizes-differ:default-before') and \
                self.source != 'mock':
            self.cls.add('history:mismatched-pair-recreated-after-default-on-'
                         'cached-class')
        col = _Collector(ctx)
        conn = self.conn
        outcome, vm, model, valuemap = run_creation(
            col, rec, False, make=lambda r, m, v: call_factory(conn, r),
            conn=conn)
        alone = set()
        if col.fails and any(self.calls.values()):
            # the same call on a class object nothing was created from yet
            fresh = ClassCacheConnection('same')
            fresh.cached = history_class(self.defs)
            quiet = _Quiet(None)
            run_creation(quiet, rec, False,
                         make=lambda r, m, v: call_factory(fresh, r),
                         conn=fresh)
            alone = quiet.sigs()
        for sig, detail in col.fails:
            if sig in alone or not any(self.calls.values()):
                ctx.fail(sig, detail)
            else:
                ctx.fail('after-earlier-factory-calls:' + sig,
                         '%s; values_default of the earlier calls: %r; the '
                         'same call on a new class object does not show '
                         'this' % (detail, self.calls))
        # the same call on the same definition gives the same result
        items = None if vm is None else list(vm.items())
        key = (kind, default, ns)
        if key not in self.first:
            self.first[key] = (outcome, items)
        elif self.first[key] != (outcome, items) and not col.fails:
            ctx.fail('history:identical-factory-call-gives-another-result',
                     '%s values_default=%r: first %r, now %r' % (
                         kind, default, self.first[key], (outcome, items)))
        self.calls[kind].append(default)
        if len(set(self.calls[kind])) > 1:
            self.varied = True
        if outcome == 'created':
            self.slots.append(dict(vm=vm, rec=rec, model=model,
                                   valuemap=valuemap, sigs=col.sigs()))
            del self.slots[:-6]
        self._definition_intact('create')

    def _probe(self, index, seed):
        slot = self.slots[index % len(self.slots)]
        col = _Collector(self.ctx)
        check_mapping(col, dict(slot['rec'], seed=seed), slot['vm'],
                      slot['model'], False, slot['valuemap'], self.conn)
        for sig, detail in col.fails:
            if sig not in slot['sigs']:
                slot['sigs'].add(sig)
                self.ctx.fail('after-later-factory-calls:' + sig, detail)

    def _definition_intact(self, after):
        """
        The class the connection serves still has the qualifiers it was
        defined with (reported once per element and definition).
        """
        if self.source == 'mock':
            cls = self.conn.GetClass(CLASSNAME, namespace=NS,
                                     LocalOnly=False, IncludeQualifiers=True)
        else:
            cls = self.conn.cached
        meth = cls.methods['Mvm']
        elems = dict(property=cls.properties['Pvm'], method=meth,
                     parameter=meth.parameters['Par'])
        for kind in HIST_KINDS:
            edef = self.defs[kind]
            valuemap = None if edef['entries'] is None else \
                [render_entry(e) for e in edef['entries']]
            diff = element_differs(elems[kind], dict(edef, default=None),
                                   valuemap)
            if diff and kind not in self.changed:
                self.changed.add(kind)
                self.ctx.fail(
                    'history:factory-call-changed-class-definition(%s)' %
                    diff[0], 'after %s, %s: %s; values_default of the calls '
                    'so far: %r' % (after, kind, diff[1], self.calls))
        other = dict(type='uint8', values=['other nine', 'other rest'],
                     default=None)
        for el in (cls.properties['Other'], meth.parameters['Other']):
            diff = element_differs(el, other, ['9', '..'])
            if diff and 'other' not in self.changed:
                self.changed.add('other')
                self.ctx.fail('history:factory-call-changed-class-definition'
                              '(other-element)', diff[1])

    def apply(self, step):
        self.ctx.event('step:' + step[0])
        if step[0] == 'create':
            self._create(*step[1:])
        elif step[0] == 'probe':
            self._probe(*step[1:])
        else:
            kind, edef = step[1:]
            self.defs[kind] = edef
            self.calls[kind] = []
            self.changed.discard(kind)
            for key in [k for k in self.first if k[0] == kind]:
                del self.first[key]
            self._install()
            self.cls.add('history:element-redefined')
        return True

    def finish(self):
        again = self.varied
        if len(self.slots) > 1:
            self.cls.add('history:several-mappings-alive')
        self.ctx.case(nontrivial=again, classes=sorted(self.cls))

    def teardown(self):
        self.conn = None
        self.slots = None


SUBCHECKS = [
    Sub('mapping', strategy=mapping_strategy, oracle=mapping_oracle_all,
        quick=(16, 240), thorough=(16, 12000), budget=(60, 1200)),
    Sub('malformed', strategy=malformed_recipe, oracle=malformed_oracle,
        quick=(8, 300), thorough=(16, 20000), budget=(60, 1200)),
    Sub('history', machine=History, quick=(8, 60), thorough=(16, 3000),
        steps=(12, 24), budget=(60, 1200)),
]
