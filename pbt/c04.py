"""
C04 - Operations over HTTP/CIM-XML equal the same operations done directly.
DESIGN.md 4.4.

History check: the same generated repository is materialised twice (mock A
behind the CIM-XML facade, mock B used directly).  Every step runs one
operation through a real WBEMConnection -> CIM-XML -> facade -> A and through
B.<Operation>() and compares results / status codes; the facade records what
the server saw, which is compared with what the caller supplied.
"""

from hypothesis import strategies as st

import pywbem
from pywbem import (CIMInstanceName, CIMClassName, CIMInstance, CIMClass,
                    CIMError)

from .runner import Sub
from . import strategies as S
from . import ops as O
from . import repo as RP
from .facade import Facade, FacadeError
from .xmlserver import connect, validate_cimxml
from .normalize import canon, vcanon, Opts, diff_path

PROPERTY = 'C04'
RULE = (
    "A history = generated repository recipe (1-2 namespaces, class forest "
    "with key/non-key properties of all types, optional association class, "
    "instances with NULLs/arrays, an echo method with in/out parameters of "
    "every type) + default_namespace + up to N steps.  Steps: every "
    "intrinsic operation (instance, class, qualifier, association, query, "
    "open/pull/close, Iter...) and InvokeMethod, with targets drawn from "
    "existing / case-variant / non-existing names and all argument shapes "
    "(str, CIMClassName, CIMInstanceName with and without namespace/host, "
    "namespace argument with stray slashes, tri-state flags, property lists "
    "as str/list/tuple).  Each step runs over WBEMConnection->CIM-XML->"
    "facade->mock A and directly on mock B; results must be equal (same "
    "exception class and CIM status code, or equal canonical result "
    "objects); the (operation, namespace, parameters) the facade decoded "
    "must equal the caller's arguments under the documented normalisation, "
    "with None-valued parameters absent; every request must pass the C03 "
    "validity oracle.  Non-trivial step = carries a CIM object or array "
    "argument or returns at least one object; non-trivial history = has at "
    "least one non-trivial step after a repository mutation.  Distinct = "
    "distinct history.")
ASSUMPTIONS = [
    "the facade's decode/encode tables (pbt/facade.py, Appendix A of "
    "DESIGN.md) are trusted harness code",
    "the host component of returned paths is not compared (the facade "
    "supplies its own host where DSP0201 requires one; the mock supplies "
    "its own)",
    "strings contain no CR and qualifier declarations no ANY=False scope "
    "(known findings of C01/C03 with the same root cause)",
    "InvokeMethod parameters are non-NULL typed values (the mock cannot "
    "type a NULL given as (name, None) tuple)",
    "enumeration contexts are compared by session identity, not by value",
    "char16 output parameter values arrive as plain str (InvokeMethod "
    "returns values without type information); compared as strings",
    "CIMClass.path of returned classes is not compared (the client "
    "synthesises it from CLASSPATH elements, the mock leaves it unset)",
]
SENSITIVITY = [
    "_iparam_namespace_from_objectname ignoring the object's namespace -> server-saw:wrong-namespace:<op>",
    'GetClass not passing IncludeClassOrigin -> server-saw:wrong-parameters:GetClass:IncludeClassOrigin',
    '_get_rslt_params inverting EndOfSequence -> client-result:eos-differs-from-server:<Open op>',
    'unpack_value dropping NULL array entries -> result-differs:GetInstance / server-saw:wrong-parameters:CreateInstance:NewInstance',
    '(before the fix) InvokeMethod with NULL array entries -> unexpected:AttributeError@_cim_xml:appendChildren',
]

STRINGS = S.cim_string(no_cr=True)


def _cn_variant(draw, name):
    k = draw(S._I10)
    if k < 6:
        return name
    if k < 8:
        return S.swapcase_name(name, draw(st.integers(0, 2 ** 20)))
    return name + 'X'


def _nocr(x):
    "CR-free copy of a recipe (CR is the known finding of C01)"
    if isinstance(x, str):
        return x.replace('\r', '\u240d')
    if isinstance(x, dict):
        return {k: _nocr(v) for k, v in x.items()}
    if isinstance(x, list):
        return [_nocr(v) for v in x]
    if isinstance(x, tuple):
        return tuple(_nocr(v) for v in x)
    return x


class Machine:
    def __init__(self, ctx):
        self.ctx = ctx
        self.nontrivial_steps = 0
        self.mutated = False
        self.nontrivial_after_mutation = False

    # ---- setup ---------------------------------------------------------

    def init_strategy(self):
        @st.composite
        def strat(draw):
            r = RP.g_repo(draw, strings=STRINGS)
            dns = draw(st.sampled_from(r['namespaces'] + [None, 'root/none']))
            pull = draw(st.sampled_from([None, True, False]))
            return {'repo': r, 'dns': dns, 'pull': pull}
        return strat()

    def setup(self, init):
        init = _nocr(init)
        self.recipe = init['repo']
        kw = {}
        if init['dns'] is not None:
            kw['default_namespace'] = init['dns']
        try:
            self.A = RP.materialize(self.recipe, **kw)
            self.B = RP.materialize(self.recipe, **kw)
        except pywbem.Error as exc:
            from .runner import HarnessError
            raise HarnessError('repository recipe rejected: %s' % exc) \
                from exc
        self.B.use_pull_operations  # noqa (attribute exists)
        self.facade = Facade(self.A)
        xkw = dict(kw)
        xkw['use_pull_operations'] = init['pull']
        self.X, self.adapter = connect(self.facade, url='http://xhost:5988',
                                       **xkw)
        self.B._use_pull_operations = init['pull']
        for a in ('_use_enum_inst_pull_operations',
                  '_use_enum_path_pull_operations',
                  '_use_ref_inst_pull_operations',
                  '_use_ref_path_pull_operations',
                  '_use_assoc_inst_pull_operations',
                  '_use_assoc_path_pull_operations',
                  '_use_query_pull_operations'):
            setattr(self.B, a, init['pull'])
        self.dns = self.X.default_namespace
        self.nss = list(self.recipe['namespaces'])
        self.classes = [c['name'] for c in self.recipe['classes']] + \
            ['TST_Echo']
        self.props = sorted(set(p['name'] for c in self.recipe['classes']
                                for p in c['props']))
        # instance path recipes known to exist: (ns, ipath recipe)
        self.paths = []
        for ii, inst in enumerate(self.recipe['instances']):
            self.paths.append(self._ipath_recipe(ii))
        self.sessions = []      # [(kind, ctxX, ctxY)] open pull sessions
        self.new_id = 0
        self.last_call = {}

    def _ipath_recipe(self, ii):
        inst = self.recipe['instances'][ii]
        ci = inst['cls']
        vals = dict(inst['values'])
        keys = []
        for p in RP.all_props(self.recipe['classes'], ci):
            if p['key']:
                v = vals[p['name']]
                if isinstance(v, tuple) and v and v[0] == 'instref':
                    keys.append((p['name'], 'reference',
                                 self._ipath_recipe(v[1])))
                else:
                    keys.append((p['name'], p['type'], v))
        return {'k': 'ipath', 'classname':
                self.recipe['classes'][ci]['name'], 'keys': keys,
                'namespace': self.recipe['namespaces'][inst['ns']],
                'host': None}

    # ---- step generation -----------------------------------------------

    def step_strategy(self):
        m = self

        @st.composite
        def strat(draw):
            return m._g_step(draw)
        return strat()

    def _g_cn(self, draw, allow_path=True):
        name = _cn_variant(draw, self.classes[draw(S._I100) %
                                              len(self.classes)])
        if allow_path and draw(S._I10) < 3:
            ns = draw(st.sampled_from(self.nss + [None]))
            host = draw(st.sampled_from([None, 'otherhost'])) \
                if ns is not None else None
            return {'k': 'cpath', 'classname': name, 'namespace': ns,
                    'host': host}
        return name

    def _g_path(self, draw):
        if self.paths and draw(S._I10) < 8:
            p = dict(self.paths[draw(S._I100) % len(self.paths)])
            k = draw(S._I10)
            if k < 2:
                p['namespace'] = None
            elif k < 4:
                p['host'] = 'otherhost'
            if draw(S._I10) < 2:
                p['classname'] = S.swapcase_name(
                    p['classname'], draw(st.integers(0, 2 ** 20)))
            if draw(S._I10) < 2:
                p['keys'] = [(S.swapcase_name(n, 5), t, v)
                             for n, t, v in reversed(p['keys'])]
            return p
        cn = self.classes[draw(S._I100) % len(self.classes)]
        return {'k': 'ipath', 'classname': cn,
                'keys': [('K0Id', 'string', draw(STRINGS))],
                'namespace': draw(st.sampled_from(self.nss + [None])),
                'host': None}

    def _g_plist(self, draw):
        k = draw(S._I10)
        if k < 5:
            return None
        names = self.props + ['Nope', 'ID', 'Note']
        if k == 5:
            return names[draw(S._I100) % len(names)]
        if k == 6:
            return []
        pl = [names[draw(S._I100) % len(names)] for _ in range(1 + k % 3)]
        return pl if k % 2 else ('tuple', pl)

    def _g_new_instance(self, draw):
        plain = [i for i, c in enumerate(self.recipe['classes'])]
        ci = plain[draw(S._I100) % len(plain)]
        c = self.recipe['classes'][ci]
        props = []
        for p in RP.all_props(self.recipe['classes'], ci):
            if p['type'] == 'reference':
                if not self.paths:
                    continue
                v = self.paths[draw(S._I100) % len(self.paths)]
            elif p['embedded']:
                if draw(S._B):
                    continue
                v = {'k': 'inst', 'classname': 'TST_Echo',
                     'properties': [
                         {'k': 'prop', 'name': 'ID', 'type': 'string',
                          'value': draw(STRINGS), 'is_array': False,
                          'array_size': None, 'reference_class': None,
                          'embedded_object': None, 'class_origin': None,
                          'propagated': None, 'qualifiers': []}],
                     'qualifiers': [], 'path': None}
                if p['is_array']:
                    v = [v]
            elif p['key'] or draw(S._I10) < 7:
                if p['is_array']:
                    v = [None if draw(S._I10) < 2 else
                         S._g_scalar(draw, p['type'], 0, STRINGS,
                                     allow_nan=False)
                         for _ in range(draw(S._I10) % 3)]
                else:
                    v = S._g_scalar(draw, p['type'], 0, STRINGS,
                                    allow_nan=False)
                if draw(S._I10) == 0 and not p['key']:
                    v = None
            else:
                continue
            props.append({'k': 'prop', 'name': p['name'], 'type': p['type'],
                          'value': v, 'is_array': p['is_array'],
                          'array_size': None, 'reference_class': None,
                          'embedded_object': p['embedded'],
                          'class_origin': None, 'propagated': None,
                          'qualifiers': []})
        return ci, {'k': 'inst', 'classname': c['name'], 'properties': props,
                    'qualifiers': [], 'path': None}

    def _g_step(self, draw):
        groups = ['enum', 'enum', 'get', 'get', 'create', 'modify', 'delete',
                  'assoc', 'assoc', 'open', 'open', 'pull', 'pull', 'close',
                  'iter', 'iter', 'class', 'class', 'qual', 'query',
                  'invoke', 'invoke', 'classmod']
        g = groups[draw(S._I100) % len(groups)]
        prev = self.last_call.get('X')
        prev_op = prev[0]['op'] if prev else None
        # more often after operations that receive objects of the caller
        if draw(S._I100) < (30 if prev_op in (
                'ModifyInstance', 'CreateInstance', 'InvokeMethod',
                'ModifyClass', 'CreateClass', 'SetQualifier') else 6):
            return {'op': 'Again'}
        tri = lambda: draw(S._TRI)  # noqa: E731
        ns_arg = lambda: draw(st.sampled_from(  # noqa: E731
            [None, None] + self.nss + [self.nss[0] + '/', '/' + self.nss[0],
                                       'root/none']))
        role = lambda: draw(st.sampled_from(  # noqa: E731
            [None, None, 'Left', 'Right', 'left', 'Nope']))
        maxobj = lambda: draw(st.sampled_from([None, 0, 0, 1, 1, 2, 100]))  # noqa
        if g == 'enum':
            if draw(S._B):
                return {'op': 'EnumerateInstances', 'args': {
                    'ClassName': self._g_cn(draw), 'namespace': ns_arg(),
                    'LocalOnly': tri(), 'DeepInheritance': tri(),
                    'IncludeQualifiers': tri(), 'IncludeClassOrigin': tri(),
                    'PropertyList': self._g_plist(draw)}}
            return {'op': 'EnumerateInstanceNames', 'args': {
                'ClassName': self._g_cn(draw), 'namespace': ns_arg()}}
        if g == 'get':
            return {'op': 'GetInstance', 'args': {
                'InstanceName': self._g_path(draw), 'LocalOnly': tri(),
                'IncludeQualifiers': tri(), 'IncludeClassOrigin': tri(),
                'PropertyList': self._g_plist(draw)}}
        if g == 'create':
            ci, inst = self._g_new_instance(draw)
            if draw(S._I10) < 3:
                # NewInstance may carry a path (e.g. an instance retrieved
                # from elsewhere); its namespace is used only if no
                # namespace argument is given
                inst['path'] = {
                    'k': 'ipath', 'classname': inst['classname'],
                    'keys': [('K0Id', 'string', 'pathkey')],
                    'namespace': draw(st.sampled_from(self.nss + [None])),
                    'host': draw(st.sampled_from([None, 'otherhost']))}
                if inst['path']['namespace'] is None:
                    inst['path']['host'] = None
            return {'op': 'CreateInstance', 'args': {
                'NewInstance': inst, 'namespace': ns_arg()}, 'cls': ci}
        if g == 'modify':
            ci, inst = self._g_new_instance(draw)
            if self.paths:
                path = dict(self.paths[draw(S._I100) % len(self.paths)])
                inst['classname'] = path['classname']
                inst['path'] = path
                keyn = set(n.lower() for n, _, _ in path['keys'])
                pmap = {}
                for i, c in enumerate(self.recipe['classes']):
                    if c['name'] == path['classname']:
                        pmap = {p['name']: p for p in
                                RP.all_props(self.recipe['classes'], i)}
                inst['properties'] = [
                    p for p in inst['properties']
                    if p['name'].lower() not in keyn and
                    (p['name'] in pmap) and
                    pmap[p['name']]['type'] == p['type'] and
                    pmap[p['name']]['is_array'] == p['is_array']]
            else:
                inst['path'] = self._g_path(draw)
            return {'op': 'ModifyInstance', 'args': {
                'ModifiedInstance': inst, 'IncludeQualifiers': tri(),
                'PropertyList': self._g_plist(draw)}}
        if g == 'delete':
            return {'op': 'DeleteInstance', 'args': {
                'InstanceName': self._g_path(draw)}}
        if g == 'assoc':
            on = self._g_path(draw) if draw(S._I10) < 7 else self._g_cn(draw)
            op = ['Associators', 'AssociatorNames', 'References',
                  'ReferenceNames'][draw(S._I10) % 4]
            a = {'ObjectName': on}
            if op.startswith('Assoc'):
                a['AssocClass'] = self._g_cn(draw) if draw(S._I10) < 3 \
                    else None
                a['ResultRole'] = role()
            a['ResultClass'] = self._g_cn(draw) if draw(S._I10) < 3 else None
            a['Role'] = role()
            if not op.endswith('Names'):
                a['IncludeQualifiers'] = tri()
                a['IncludeClassOrigin'] = tri()
                a['PropertyList'] = self._g_plist(draw)
            return {'op': op, 'args': a}
        if g in ('open', 'iter'):
            pre = 'Open' if g == 'open' else 'Iter'
            which = ['EnumerateInstances', 'EnumerateInstancePaths',
                     'AssociatorInstances', 'AssociatorInstancePaths',
                     'ReferenceInstances', 'ReferenceInstancePaths'][
                         draw(S._I10) % 6]
            a = {}
            if which.startswith('Enumerate'):
                a['ClassName'] = self._g_cn(draw)
                a['namespace'] = ns_arg()
            else:
                a['InstanceName'] = self._g_path(draw)
                a['ResultClass'] = self._g_cn(draw) \
                    if draw(S._I10) < 2 else None
                a['Role'] = role()
                if which.startswith('Assoc'):
                    a['AssocClass'] = self._g_cn(draw) \
                        if draw(S._I10) < 2 else None
                    a['ResultRole'] = role()
            if which.endswith('Instances'):
                a['IncludeClassOrigin'] = tri()
                a['PropertyList'] = self._g_plist(draw)
                if which == 'EnumerateInstances':
                    a['DeepInheritance'] = tri()
            a['OperationTimeout'] = draw(st.sampled_from([None, None, 0, 30]))
            if g == 'open':
                a['MaxObjectCount'] = maxobj()
                a['ContinueOnError'] = draw(st.sampled_from(
                    [None, None, False]))
            else:
                a['MaxObjectCount'] = draw(st.sampled_from([1, 2, 100]))
            return {'op': pre + which, 'args': a}
        if g == 'pull':
            return {'op': 'Pull', 'session': draw(S._I100),
                    'MaxObjectCount': draw(st.sampled_from([0, 1, 2, 100])),
                    'wrong_kind': draw(S._I10) == 0}
        if g == 'close':
            return {'op': 'Close', 'session': draw(S._I100)}
        if g == 'class':
            k = draw(S._I10) % 3
            if k == 0:
                return {'op': 'GetClass', 'args': {
                    'ClassName': self._g_cn(draw), 'namespace': ns_arg(),
                    'LocalOnly': tri(), 'IncludeQualifiers': tri(),
                    'IncludeClassOrigin': tri(),
                    'PropertyList': self._g_plist(draw)}}
            cn = self._g_cn(draw) if draw(S._B) else None
            if k == 1:
                return {'op': 'EnumerateClasses', 'args': {
                    'namespace': ns_arg(), 'ClassName': cn,
                    'DeepInheritance': tri(), 'LocalOnly': tri(),
                    'IncludeQualifiers': tri(),
                    'IncludeClassOrigin': tri()}}
            return {'op': 'EnumerateClassNames', 'args': {
                'namespace': ns_arg(), 'ClassName': cn,
                'DeepInheritance': tri()}}
        if g == 'classmod':
            k = draw(S._I10) % 3
            if k == 0:
                self.new_id += 1
                sup = self.classes[draw(S._I100) % len(self.classes)] \
                    if draw(S._B) else None
                props = []
                if sup is None:
                    props.append({
                        'k': 'prop', 'name': 'NK', 'type': 'uint32',
                        'value': None, 'is_array': False, 'array_size': None,
                        'reference_class': None, 'embedded_object': None,
                        'class_origin': None, 'propagated': None,
                        'qualifiers': [{
                            'k': 'qual', 'name': 'Key', 'type': 'boolean',
                            'value': True, 'is_array': False,
                            'propagated': None, 'overridable': None,
                            'tosubclass': None, 'toinstance': None,
                            'translatable': None}]})
                t, is_arr, v = S._g_typed_value(draw, S.SIMPLE_TYPES,
                                                strings=STRINGS,
                                                allow_nan=False)
                props.append({
                    'k': 'prop', 'name': 'NP', 'type': t, 'value': v,
                    'is_array': is_arr, 'array_size': None,
                    'reference_class': None, 'embedded_object': None,
                    'class_origin': None, 'propagated': None,
                    'qualifiers': []})
                return {'op': 'CreateClass', 'args': {'NewClass': {
                    'k': 'class', 'classname': 'TST_N%d' % draw(S._I10),
                    'superclass': sup, 'properties': props, 'methods': [],
                    'qualifiers': []}, 'namespace': ns_arg()}}
            if k == 1:
                return {'op': 'DeleteClass', 'args': {
                    'ClassName': self._g_cn(draw), 'namespace': ns_arg()}}
            return {'op': 'ModifyClass', 'args': {'ModifiedClass': {
                'k': 'class', 'classname': 'TST_N%d' % draw(S._I10),
                'superclass': None, 'properties': [{
                    'k': 'prop', 'name': 'NK', 'type': 'uint32',
                    'value': None, 'is_array': False, 'array_size': None,
                    'reference_class': None, 'embedded_object': None,
                    'class_origin': None, 'propagated': None,
                    'qualifiers': [{
                        'k': 'qual', 'name': 'Key', 'type': 'boolean',
                        'value': True, 'is_array': False,
                        'propagated': None, 'overridable': None,
                        'tosubclass': None, 'toinstance': None,
                        'translatable': None}]}],
                'methods': [], 'qualifiers': []}, 'namespace': ns_arg()}}
        if g == 'qual':
            k = draw(S._I10) % 4
            qn = draw(st.sampled_from(['Key', 'key', 'Description', 'Nope',
                                       'QNew1', 'QNew2']))
            if k == 0:
                return {'op': 'EnumerateQualifiers',
                        'args': {'namespace': ns_arg()}}
            if k == 1:
                return {'op': 'GetQualifier', 'args': {
                    'QualifierName': qn, 'namespace': ns_arg()}}
            if k == 2:
                qd = S._g_qualdecl(draw, strings=STRINGS, allow_nan=False)
                qd['name'] = draw(st.sampled_from(['QNew1', 'QNew2']))
                if qd['scopes'] is not None:
                    qd['scopes'] = [(s, v) for s, v in qd['scopes']
                                    if not (s == 'ANY' and not v)] or None
                return {'op': 'SetQualifier', 'args': {
                    'QualifierDeclaration': qd, 'namespace': ns_arg()}}
            return {'op': 'DeleteQualifier', 'args': {
                'QualifierName': qn, 'namespace': ns_arg()}}
        if g == 'query':
            if draw(S._B):
                return {'op': 'ExecQuery', 'args': {
                    'QueryLanguage': draw(st.sampled_from(['WQL', 'DMTF:CQL',
                                                           'x'])),
                    'Query': 'SELECT * FROM ' + self.classes[0],
                    'namespace': ns_arg()}}
            return {'op': 'OpenQueryInstances', 'args': {
                'FilterQueryLanguage': draw(st.sampled_from(['WQL',
                                                             'DMTF:CQL'])),
                'FilterQuery': 'SELECT * FROM ' + self.classes[0],
                'namespace': ns_arg(), 'ReturnQueryResultClass': tri(),
                'MaxObjectCount': maxobj()}}
        # invoke
        n = 1 + draw(S._I10) % 3
        plist = []
        used = set()
        for _ in range(n):
            kind = draw(S._I10)
            if kind == 0:
                pname, tv = 'p_ref', ('reference', False, self._echo_path(
                    draw), None)
            elif kind == 1:
                pname, tv = 'a_ref', ('reference', True,
                                      [self._echo_path(draw)], None)
            elif kind == 2:
                einst = {'k': 'inst', 'classname': 'TST_Echo',
                         'properties': [{
                             'k': 'prop', 'name': 'ID', 'type': 'string',
                             'value': draw(STRINGS), 'is_array': False,
                             'array_size': None, 'reference_class': None,
                             'embedded_object': None, 'class_origin': None,
                             'propagated': None, 'qualifiers': []}],
                         'qualifiers': [], 'path': None}
                if draw(S._B):
                    pname, tv = 'p_einst', ('string', False, einst,
                                            'instance')
                else:
                    pname, tv = 'a_eobj', ('string', True, [einst], 'object')
            else:
                t = S.SIMPLE_TYPES[draw(S._I100) % len(S.SIMPLE_TYPES)]
                if draw(S._I10) < 4:
                    v = [S._g_scalar(draw, t, 0, STRINGS, allow_nan=False)
                         for _ in range(1 + draw(S._I10) % 3)]
                    if draw(S._I10) < 2 and len(v) > 1:
                        v[1] = None
                    pname, tv = 'a_' + t, (t, True, v, None)
                else:
                    pname, tv = 'p_' + t, (
                        t, False, S._g_scalar(draw, t, 0, STRINGS,
                                              allow_nan=False), None)
            if pname in used:
                continue
            used.add(pname)
            form = 'cimparam' if (draw(S._B) or tv[3] or
                                  (tv[1] and None in tv[2])) else 'tuple'
            plist.append((form, pname, tv))
        inst_level = draw(S._B)
        if inst_level:
            on = self._echo_path(draw)
            meth = 'EchoI'
        else:
            on = draw(st.sampled_from(
                ['TST_Echo', 'tst_echo',
                 {'k': 'cpath', 'classname': 'TST_Echo',
                  'namespace': self.nss[-1], 'host': None},
                 {'k': 'cpath', 'classname': 'TST_Echo',
                  'namespace': self.nss[0], 'host': 'otherhost'}]))
            meth = 'Echo'
        if draw(S._I10) == 0:
            meth = 'Nope'
        return {'op': 'InvokeMethod', 'args': {
            'MethodName': meth, 'ObjectName': on, 'Params': plist,
            'kwparams': []}}

    def _echo_path(self, draw):
        ns = draw(st.sampled_from(self.nss + [None]))
        # a path as an earlier operation returned it carries a host
        host = draw(st.sampled_from([None, None, 'otherhost', 'xhost:5988'])) \
            if ns is not None else None
        return {'k': 'ipath', 'classname': 'TST_Echo',
                'keys': [('ID', 'string',
                          draw(st.sampled_from(['e1', 'e1', 'nope'])))],
                'namespace': ns, 'host': host}

    # ---- execution -------------------------------------------------------

    def _run(self, conn, step, side):
        op = step['op']
        if op == 'Pull':
            if not self.sessions:
                return ('skip', None)
            kind, cx, cy = self.sessions[step['session'] %
                                         len(self.sessions)]
            ctx = cx if side == 'X' else cy
            pull = {'insts': 'PullInstancesWithPath',
                    'paths': 'PullInstancePaths',
                    'query': 'PullInstances'}
            k = kind
            if step['wrong_kind']:
                k = 'paths' if kind == 'insts' else 'insts'
            return self._call(lambda: getattr(conn, pull[k])(
                ctx, MaxObjectCount=step['MaxObjectCount']))
        if op == 'Close':
            if not self.sessions:
                return ('skip', None)
            kind, cx, cy = self.sessions[step['session'] %
                                         len(self.sessions)]
            ctx = cx if side == 'X' else cy
            return self._call(lambda: conn.CloseEnumeration(ctx))
        if op == 'Again':
            # the previous call once more, with the very same argument
            # objects (a caller that keeps using its objects): an operation
            # that modified its arguments shows here
            last = self.last_call.get(side)
            if last is None:
                return ('skip', None)
            lstep, lkw = last
            if any(hasattr(v, '__next__') for v in lkw.values()):
                return ('skip', None)       # one-shot iterator: used up
            return self._call(lambda: O.invoke(conn, lstep, kwargs=lkw))
        kw = O.build_call(step)
        self.last_call[side] = (step, kw)
        return self._call(lambda: O.invoke(conn, step, kwargs=kw))

    @staticmethod
    def _call(fn):
        try:
            return ('ok', fn())
        except CIMError as exc:
            return ('cimerror', exc.status_code)
        except pywbem.Error as exc:
            return ('error:' + type(exc).__name__, str(exc)[:300])
        except (TypeError, ValueError) as exc:
            return ('local:' + type(exc).__name__, str(exc)[:300])

    def apply(self, step):
        step = _nocr(step)
        ctx = self.ctx
        op = step['op']
        n_before = len(self.adapter.requests)
        s_before = len(self.facade.seen)
        # 'Again' repeats the previous call: judged like that operation
        eff_op = op
        if op == 'Again' and self.last_call.get('X'):
            eff_op = self.last_call['X'][0]['op']
        rx = self._run(self.X, step, 'X')
        ry = self._run(self.B, step, 'Y')
        if rx[0] == 'skip':
            ctx.case(nontrivial=False, classes=('op:' + op + ':skipped',))
            return True
        classes = ['op:' + op, 'outcome:' + rx[0].split(':')[0]]
        # 1. same outcome
        if rx[0] != ry[0] or (rx[0] == 'cimerror' and rx[1] != ry[1]):
            ctx.fail('outcome-differs:%s:%s-vs-%s' %
                     (op, self._ok(rx), self._ok(ry)),
                     'over CIM-XML: %r\ndirect: %r\nstep: %r' %
                     (rx, ry, step))
            return False
        if rx[0] == 'ok':
            # embedded_object of a parameter *declaration* is not carried by
            # CIM-XML (PARAMETER has no such attribute; the qualifier is)
            o = Opts(host=False, defaults=True,
                     ignore=('path', 'param_embedded_object')
                     if eff_op in ('GetClass', 'EnumerateClasses')
                     else ('path',))
            cx = self._c16(self._rcanon(rx[1], o))
            cy = self._c16(self._rcanon(ry[1], o))
            if cx != cy:
                ctx.fail('result-differs:' + op,
                         '%s\nstep: %r' % (diff_path(cx, cy), step))
                return False
            self._track(step, rx[1], ry[1])
            # what the caller got is what the server sent (guards the
            # post-processing both paths share)
            last = self.facade.last
            if last is not None and not op.startswith('Iter') and \
                    op != 'InvokeMethod' and \
                    len(self.facade.seen) == s_before + 1:
                r = rx[1]
                if hasattr(r, 'eos'):
                    objs = getattr(r, 'instances', None)
                    if objs is None:
                        objs = r.paths
                    if r.eos != last['eos']:
                        ctx.fail('client-result:eos-differs-from-server:' +
                                 op, 'server sent eos=%r, caller got %r' %
                                 (last['eos'], r.eos))
                    if len(objs) != last['n']:
                        ctx.fail('client-result:object-count-differs:' + op,
                                 'server sent %d, caller got %d' %
                                 (last['n'], len(objs)))
                elif isinstance(r, list) and len(r) != last['n']:
                    ctx.fail('client-result:object-count-differs:' + op,
                             'server sent %d, caller got %d' %
                             (last['n'], len(r)))
        # 2. the server saw what the caller supplied
        reqs = self.adapter.requests[n_before:]
        seen = self.facade.seen[s_before:]
        if seen and not op.startswith('Iter') and \
                op not in ('Pull', 'Close', 'Again'):
            self._check_seen(step, seen[0])
        # 3. requests are valid CIM-XML
        for r in reqs:
            bad = validate_cimxml(r.body)
            if bad is not None:
                ctx.fail('request-invalid:' + bad[0], bad[1])
        nontriv = O.call_has_objects(step) if 'args' in step else False
        if rx[0] == 'ok' and self._has_objects(rx[1]):
            nontriv = True
        if nontriv:
            self.nontrivial_steps += 1
            if self.mutated:
                self.nontrivial_after_mutation = True
        if rx[0] == 'ok' and op in ('CreateInstance', 'ModifyInstance',
                                    'DeleteInstance', 'CreateClass',
                                    'DeleteClass', 'SetQualifier',
                                    'DeleteQualifier', 'ModifyClass'):
            self.mutated = True
        ctx.case(key=('step', step), nontrivial=nontriv, classes=classes)
        return True

    @staticmethod
    def _ok(r):
        if r[0] == 'ok':
            return 'ok'
        if r[0] == 'cimerror':
            return 'CIMError%s' % r[1]
        return r[0]

    @staticmethod
    def _has_objects(r):
        if isinstance(r, (list, tuple)):
            return len(r) > 0
        return r is not None

    def _rcanon(self, r, o):
        if hasattr(r, '_fields'):      # pull result tuples
            d = r._asdict()
            out = []
            for k in sorted(d):
                if k == 'context':
                    out.append((k, None if d[k] is None else
                                ('ctx', d[k][1])))
                else:
                    out.append((k, self._rcanon(d[k], o)))
            return tuple(out)
        if isinstance(r, tuple) and len(r) == 2 and \
                hasattr(r[1], 'items') and not isinstance(r[1], CIMInstance):
            # InvokeMethod result
            return ('invoke', vcanon(r[0], o),
                    tuple(sorted((k.lower(), vcanon(v, o))
                                 for k, v in r[1].items())))
        if isinstance(r, list):
            return ('list', tuple(self._rcanon(x, o) for x in r))
        if isinstance(r, tuple):
            return ('tuple', tuple(self._rcanon(x, o) for x in r))
        if isinstance(r, str):
            return ('str', r)
        return canon(r, o)

    def _track(self, step, rx, ry):
        op = step['op']
        if op == 'CreateInstance':
            # remember the new path (as recipe) for later steps
            inst = step['args']['NewInstance']
            ci = step['cls']
            keys = []
            pvals = {p['name']: p for p in inst['properties']}
            for p in RP.all_props(self.recipe['classes'], ci):
                if p['key'] and p['name'] in pvals:
                    pv = pvals[p['name']]
                    keys.append((p['name'], p['type'], pv['value']))
            self.paths.append({'k': 'ipath', 'classname': inst['classname'],
                               'keys': keys, 'namespace': rx.namespace,
                               'host': None})
        elif op.startswith('Open') and not rx.eos:
            kind = 'paths' if op.endswith('Paths') else \
                'query' if op == 'OpenQueryInstances' else 'insts'
            self.sessions.append((kind, rx.context, ry.context))
        elif op == 'Pull':
            pass

    # ---- what the server saw ---------------------------------------------

    def _exp_namespace(self, step):
        a = step['args']
        ns = a.get('namespace')
        if isinstance(ns, str):
            ns = ns.strip('/')
        if ns is None:
            for k in ('ClassName', 'InstanceName', 'ObjectName'):
                v = a.get(k)
                if isinstance(v, dict) and v.get('namespace'):
                    ns = v['namespace']
                    break
        if ns is None:
            for k in ('NewInstance', 'ModifiedInstance'):
                v = a.get(k)
                if isinstance(v, dict) and v.get('path') and \
                        v['path'].get('namespace'):
                    ns = v['path']['namespace']
        if ns is None:
            ns = self.dns
        return ns

    def _check_seen(self, step, seen):
        ctx = self.ctx
        op = step['op']
        a = step['args']
        name, ns_or_target, params = seen
        if name != a.get('MethodName', op) and op != 'InvokeMethod':
            ctx.fail('server-saw:wrong-operation:' + op, repr(name))
            return
        o = Opts(untyped_keys=False, defaults=True)
        if op == 'InvokeMethod':
            if name != a['MethodName']:
                ctx.fail('server-saw:wrong-method-name', repr(name))
            on = a['ObjectName']
            exp = S.build(on) if isinstance(on, dict) else \
                CIMClassName(on)
            exp.host = None
            if exp.namespace is None:
                exp.namespace = self.dns
            if canon(exp, o) != canon(ns_or_target, o):
                ctx.fail('server-saw:wrong-target:InvokeMethod',
                         '%r vs %r' % (ns_or_target, exp))
            want = {}
            for form, pname, tv in a['Params']:
                want[pname] = (tv[0], tv[1],
                               vcanon(S.build_value(tv[0], tv[2]), o,
                                      key=(tv[0] == 'reference')))
            got = {p.name: (p.type, bool(p.is_array),
                            vcanon(p.value, o, key=(p.type == 'reference')))
                   for p in params}
            if self._c16(want) != self._c16(got):
                ctx.fail('server-saw:wrong-parameters:InvokeMethod',
                         'caller %r\nserver %r' % (want, got))
            return
        exp_ns = self._exp_namespace(step)
        if ns_or_target != exp_ns:
            ctx.fail('server-saw:wrong-namespace:' + op,
                     'server %r, expected %r; step %r' %
                     (ns_or_target, exp_ns, step))
            return
        exp = {}
        for k, v in a.items():
            if k in ('namespace', 'kwparams') or v is None:
                continue
            if k == 'PropertyList':
                if isinstance(v, str):
                    v = [v]
                elif isinstance(v, tuple):
                    v = list(v[1])
                exp[k] = ('list', tuple(('string', x) for x in v))
                continue
            if isinstance(v, dict):
                obj = S.build(v)
                if isinstance(obj, (CIMInstanceName, CIMClassName)):
                    obj.host = None
                    obj.namespace = None
                elif isinstance(obj, CIMInstance):
                    if k == 'NewInstance':
                        obj.path = None
                    elif obj.path is not None:
                        obj.path.host = None
                        obj.path.namespace = None
                elif isinstance(obj, CIMClass):
                    obj.path = None
                exp[k] = canon(obj, Opts(defaults=True))
                continue
            if isinstance(v, str) and k in ('ClassName', 'ResultClass',
                                            'AssocClass', 'ObjectName'):
                exp[k] = canon(CIMClassName(v), Opts(defaults=True))
                continue
            exp[k] = vcanon(v, o)
        got = {}
        for k, v in params.items():
            if v is None:
                ctx.fail('server-saw:NULL-parameter-sent:' + op, k)
                continue
            if k == 'PropertyList':
                got[k] = ('list', tuple(('string', x) for x in v))
            elif isinstance(v, (CIMInstanceName, CIMClassName, CIMInstance,
                                CIMClass, pywbem.CIMQualifierDeclaration)):
                got[k] = canon(v, Opts(defaults=True))
            else:
                got[k] = vcanon(v, o)
        if self._c16(exp) != self._c16(got):
            miss = sorted(set(exp) - set(got))
            extra = sorted(set(got) - set(exp))
            diff = [k for k in exp if k in got and
                    self._c16(exp[k]) != self._c16(got[k])]
            ctx.fail('server-saw:wrong-parameters:%s:%s' %
                     (op, ','.join(miss + extra + diff)[:60]),
                     'missing %r extra %r differing %r\ncaller %r\nserver %r'
                     % (miss, extra, diff, exp, got))

    @staticmethod
    def _c16(c):
        "char16 values arrive as strings (documented loss, C01)"
        if isinstance(c, dict):
            return {k: Machine._c16(v) for k, v in c.items()}
        if isinstance(c, tuple):
            if len(c) == 2 and c[0] == 'char16':
                return ('string', c[1])
            return tuple(Machine._c16(x) for x in c)
        return c

    def finish(self):
        self.ctx.case(nontrivial=self.nontrivial_after_mutation,
                      classes=('history',
                               'history:nontrivial-steps>=3'
                               if self.nontrivial_steps >= 3
                               else 'history:few-nontrivial-steps'))

    def teardown(self):
        try:
            self.X.close()
        except Exception:  # pylint: disable=broad-except
            pass


def facade_selfcheck(ctx, shard, nshards):
    """
    Validation of the facade's decode table against the request/response
    pairs recorded in tests/functiontest/*.yaml: every recorded IMETHODCALL
    must decode without error to exactly the non-null arguments of the
    recorded pywbem call.  A failure here is a harness problem, not a
    property violation.
    """
    import glob
    import os
    import yaml
    from lxml import etree
    from .runner import REPO, HarnessError
    from .facade import decode_iparam
    loader = getattr(yaml, 'CSafeLoader', yaml.SafeLoader)
    bad = []
    for f in sorted(glob.glob(os.path.join(REPO, 'tests', 'functiontest',
                                           '*.yaml'))):
        for tc in yaml.load(open(f, encoding='utf-8'), Loader=loader) or []:
            try:
                data = tc['http_request']['data']
                op = tc['pywbem_request']['operation']
                root = etree.fromstring(data.encode('utf-8'))
            except Exception:  # pylint: disable=broad-except
                continue
            im = root.find('.//IMETHODCALL')
            if im is None:
                continue
            ctx.current = ('yaml', tc['name'])
            try:
                names = set()
                for ip in im.findall('IPARAMVALUE'):
                    kids = list(ip)
                    v = decode_iparam(ip.get('NAME'),
                                      kids[0] if kids else None)
                    if v is not None:
                        names.add(ip.get('NAME'))
                exp = set(k for k, v in op.items() if v is not None and
                          k not in ('pywbem_method', 'namespace', 'context'))
                if op.get('context'):
                    exp.add('EnumerationContext')
                ok = names == exp
            except Exception:  # pylint: disable=broad-except
                ok = False
            ctx.case(key=('yaml', tc['name']), nontrivial=ok,
                     classes=('selfcheck:' + ('ok' if ok else 'mismatch'),))
            if not ok:
                bad.append(tc['name'])
    # SetQualifierF1 carries <SCOPE ANY="false"> (known finding of C01/C03)
    bad = [b for b in bad if b != 'SetQualifierF1']
    if len(bad) > 3:
        raise HarnessError('facade self-check failed for %r' % bad[:10])


SUBCHECKS = [
    Sub('history', machine=Machine, quick=(16, 40), thorough=(16, 1200),
        steps=(25, 50), case_timeout=120),
    Sub('facade_selfcheck', enumerate=facade_selfcheck, quick=(1, 0),
        thorough=(1, 0)),
]
SUBCHECKS[1].replay = lambda ctx, ex: None
