"""
Generated mock repositories (DESIGN.md section 3, ``repository()``): a
consistent recipe (plain data) of namespaces, a class forest with key and
non-key properties of all types, association classes, methods, and instances,
and ``materialize()`` which builds a FakedWBEMConnection from it through the
public API.  Used by C04 and the mock-family checks.

Recipe:
  {'namespaces': [ns, ...],
   'classes': [{'name', 'super': idx|None, 'assoc': bool,
                'props': [{'name','type','is_array','key','value',
                           'embedded': None|'instance'|'object',
                           'refclass': idx|None}], 'nss': [ns idx...]}],
   'instances': [{'cls': idx, 'ns': idx, 'values': [(propname, value)]}]}
Values are the scalar recipes of strategies.py.
"""

from hypothesis import strategies as st

import pywbem
import pywbem_mock
from pywbem import (CIMClass, CIMProperty, CIMMethod, CIMParameter,
                    CIMQualifier, CIMInstance, CIMInstanceName, CIMClassName,
                    Uint32)

from . import strategies as S

QUALIFIER_MOF = """
Qualifier Abstract : boolean = false, Scope(class, association, indication),
    Flavor(EnableOverride, Restricted);
Qualifier Association : boolean = false, Scope(association),
    Flavor(DisableOverride, ToSubclass);
Qualifier Description : string = null, Scope(any),
    Flavor(EnableOverride, ToSubclass, Translatable);
Qualifier EmbeddedInstance : string = null,
    Scope(property, method, parameter), Flavor(EnableOverride, ToSubclass);
Qualifier EmbeddedObject : boolean = false,
    Scope(property, method, parameter), Flavor(DisableOverride, ToSubclass);
Qualifier In : boolean = true, Scope(parameter),
    Flavor(DisableOverride, ToSubclass);
Qualifier Indication : boolean = false, Scope(class, indication),
    Flavor(DisableOverride, ToSubclass);
Qualifier Key : boolean = false, Scope(property, reference),
    Flavor(DisableOverride, ToSubclass);
Qualifier MaxLen : uint32 = null, Scope(property, method, parameter),
    Flavor(EnableOverride, ToSubclass);
Qualifier Out : boolean = false, Scope(parameter),
    Flavor(DisableOverride, ToSubclass);
Qualifier Override : string = null, Scope(property, reference, method),
    Flavor(EnableOverride, Restricted);
Qualifier Static : boolean = false, Scope(property, method),
    Flavor(DisableOverride, ToSubclass);
Qualifier Values : string[], Scope(property, method, parameter),
    Flavor(EnableOverride, ToSubclass, Translatable);
Qualifier ValueMap : string[], Scope(property, method, parameter),
    Flavor(EnableOverride, ToSubclass);
"""

ECHO_TYPES = S.SIMPLE_TYPES


def echo_mof():
    params = []
    for t in ECHO_TYPES:
        params.append('[In, Out] %s p_%s' % (t, t))
        params.append('[In, Out] %s a_%s[]' % (t, t))
    params.append('[In, Out] TST_Echo REF p_ref')
    params.append('[In, Out] TST_Echo REF a_ref[]')
    params.append('[In, Out, EmbeddedInstance("TST_Echo")] string p_einst')
    params.append('[In, Out, EmbeddedInstance("TST_Echo")] string a_einst[]')
    params.append('[In, Out, EmbeddedObject] string p_eobj')
    params.append('[In, Out, EmbeddedObject] string a_eobj[]')
    return ('class TST_Echo {\n  [Key] string ID;\n  string Note;\n'
            '  [Static] uint32 Echo(\n    %s);\n'
            '  uint32 EchoI(\n    %s);\n};\n' %
            (',\n    '.join(params), ',\n    '.join(params)))


class EchoProvider(pywbem_mock.MethodProvider):
    "returns its typed inputs as outputs"
    provider_classnames = 'TST_Echo'

    def InvokeMethod(self, methodname, localobject, params):
        out = [CIMParameter(p.name, p.type, value=p.value,
                            is_array=p.is_array,
                            embedded_object=p.embedded_object)
               for p in params.values()]
        return (Uint32(len(out)), out)


KEY_TYPES = ['string', 'string', 'uint8', 'sint32', 'uint64', 'boolean',
             'char16', 'datetime']
PROP_TYPES = S.SIMPLE_TYPES


def g_repo(draw, max_classes=5, assoc=True, max_inst=3, two_ns=True,
           strings=None):
    nss = ['root/cimv2']
    if two_ns and draw(S._B):
        nss.append('root/other')
    ncls = 1 + draw(st.integers(0, max_classes - 1))
    classes = []
    for i in range(ncls):
        sup = None
        if i > 0 and draw(S._I10) < 6:
            cands = [j for j in range(i) if not classes[j]['assoc']]
            if cands:
                sup = cands[draw(S._I100) % len(cands)]
        props = []
        if sup is None:
            nkeys = 1 + (draw(S._I10) < 3)
            for k in range(nkeys):
                kt = KEY_TYPES[draw(S._I100) % len(KEY_TYPES)]
                props.append({'name': 'K%d%s' % (k, 'ey' if k else 'Id'),
                              'type': kt, 'is_array': False, 'key': True,
                              'value': None, 'embedded': None,
                              'refclass': None})
        for k in range(draw(st.sampled_from([0, 1, 2, 3]))):
            t = PROP_TYPES[draw(S._I100) % len(PROP_TYPES)]
            is_arr = draw(S._I10) < 3
            emb = None
            if t == 'string' and draw(S._I10) < 2:
                emb = 'instance' if draw(S._B) else 'object'
            dflt = None
            if emb is None and draw(S._I10) < 3:
                if is_arr:
                    dflt = [S._g_scalar(draw, t, 0, strings)
                            for _ in range(draw(S._I10) % 3)]
                else:
                    dflt = S._g_scalar(draw, t, 0, strings)
            props.append({'name': 'P%d_%d%s' % (i, k, t[:2]), 'type': t,
                          'is_array': is_arr, 'key': False, 'value': dflt,
                          'embedded': emb, 'refclass': None})
        cnss = list(range(len(nss))) if draw(S._I10) < 7 else [0]
        if sup is not None:
            cnss = [n for n in cnss if n in classes[sup]['nss']] or \
                list(classes[sup]['nss'])
        classes.append({'name': 'TST_C%d' % i, 'super': sup, 'assoc': False,
                        'props': props, 'nss': cnss})
    if assoc and draw(S._I10) < 6:
        plain = list(range(len(classes)))
        a = plain[draw(S._I100) % len(plain)]
        b = plain[draw(S._I100) % len(plain)]
        nss_common = sorted(set(classes[a]['nss']) & set(classes[b]['nss']))
        classes.append({
            'name': 'TST_A%d' % len(classes), 'super': None, 'assoc': True,
            'props': [
                {'name': 'Left', 'type': 'reference', 'is_array': False,
                 'key': True, 'value': None, 'embedded': None, 'refclass': a},
                {'name': 'Right', 'type': 'reference', 'is_array': False,
                 'key': True, 'value': None, 'embedded': None, 'refclass': b},
                {'name': 'Note', 'type': 'string', 'is_array': False,
                 'key': False, 'value': None, 'embedded': None,
                 'refclass': None}],
            'nss': nss_common or [0]})
    # instances
    instances = []
    seen_keys = set()
    for ci, c in enumerate(classes):
        if c['assoc']:
            continue
        for nsi in c['nss']:
            for _ in range(draw(st.integers(0, max_inst))):
                vals = []
                for p in all_props(classes, ci):
                    if p['key']:
                        v = S._g_scalar(draw, p['type'], 0, strings,
                                        allow_nan=False)
                    elif p['embedded']:
                        v = None
                    elif draw(S._I10) < 7:
                        if p['is_array']:
                            v = [None if draw(S._I10) < 2 else
                                 S._g_scalar(draw, p['type'], 0, strings)
                                 for _ in range(draw(S._I10) % 3)]
                        else:
                            v = S._g_scalar(draw, p['type'], 0, strings)
                    else:
                        continue
                    vals.append((p['name'], v))
                ksig = (nsi, ci, tuple(
                    (n.lower(), _keysig(p['type'], v))
                    for n, v in vals
                    for p in all_props(classes, ci)
                    if p['key'] and p['name'] == n))
                if ksig in seen_keys:
                    continue
                seen_keys.add(ksig)
                instances.append({'cls': ci, 'ns': nsi, 'values': vals})
    # association instances between existing instances
    for ci, c in enumerate(classes):
        if not c['assoc']:
            continue
        la, rb = c['props'][0]['refclass'], c['props'][1]['refclass']
        for nsi in c['nss']:
            lefts = [k for k, x in enumerate(instances)
                     if x['ns'] == nsi and is_subclass(classes, x['cls'], la)]
            rights = [k for k, x in enumerate(instances)
                      if x['ns'] == nsi and is_subclass(classes, x['cls'], rb)]
            if not lefts or not rights:
                continue
            for _ in range(draw(st.integers(0, 3))):
                li = lefts[draw(S._I100) % len(lefts)]
                ri = rights[draw(S._I100) % len(rights)]
                if (nsi, ci, li, ri) in seen_keys:
                    continue
                seen_keys.add((nsi, ci, li, ri))
                instances.append({'cls': ci, 'ns': nsi,
                                  'values': [('Left', ('instref', li)),
                                             ('Right', ('instref', ri)),
                                             ('Note', draw(S._CIMSTR))]})
    return {'namespaces': nss, 'classes': classes, 'instances': instances}


def _keysig(type_, v):
    "hashable identity of a key value (equal CIM values -> equal sigs)"
    if type_ == 'datetime':
        d = S.build_datetime(v)
        return ('dt', d.timedelta, d.datetime)
    if type_ == 'boolean':
        return ('b', bool(v))
    if isinstance(v, (int, float)):
        return ('n', v)
    return ('s', v)


def is_subclass(classes, ci, anc):
    while ci is not None:
        if ci == anc:
            return True
        ci = classes[ci]['super']
    return False


def all_props(classes, ci):
    "properties exposed by class ci (ancestors first)"
    chain = []
    while ci is not None:
        chain.append(ci)
        ci = classes[ci]['super']
    out = []
    for c in reversed(chain):
        out.extend(classes[c]['props'])
    return out


def build_class(recipe, ci):
    c = recipe['classes'][ci]
    props = []
    for p in c['props']:
        quals = []
        if p['key']:
            quals.append(CIMQualifier('Key', True))
        if p['embedded'] == 'instance':
            quals.append(CIMQualifier('EmbeddedInstance', 'TST_Echo'))
        elif p['embedded'] == 'object':
            quals.append(CIMQualifier('EmbeddedObject', True))
        refcls = recipe['classes'][p['refclass']]['name'] \
            if p['refclass'] is not None else None
        props.append(CIMProperty(
            p['name'], S.build_value(p['type'], p['value']), type=p['type'],
            is_array=p['is_array'], reference_class=refcls,
            embedded_object=p['embedded'], qualifiers=quals))
    quals = [CIMQualifier('Description', 'class %s' % c['name'])]
    if c['assoc']:
        quals.append(CIMQualifier('Association', True))
    sup = recipe['classes'][c['super']]['name'] \
        if c['super'] is not None else None
    return CIMClass(c['name'], properties=props, superclass=sup,
                    qualifiers=quals)


def instance_path(recipe, ii, host=None):
    inst = recipe['instances'][ii]
    ci = inst['cls']
    vals = dict(inst['values'])
    kbs = []
    for p in all_props(recipe['classes'], ci):
        if p['key']:
            kbs.append((p['name'], _build_val(recipe, p, vals[p['name']])))
    return CIMInstanceName(recipe['classes'][ci]['name'], keybindings=kbs,
                           namespace=recipe['namespaces'][inst['ns']],
                           host=host)


def _build_val(recipe, p, v):
    if isinstance(v, tuple) and v and v[0] == 'instref':
        return instance_path(recipe, v[1])
    return S.build_value(p['type'], v)


def build_instance(recipe, ii, with_path=False):
    inst = recipe['instances'][ii]
    ci = inst['cls']
    pmap = {p['name']: p for p in all_props(recipe['classes'], ci)}
    props = []
    for name, v in inst['values']:
        p = pmap[name]
        props.append(CIMProperty(name, _build_val(recipe, p, v),
                                 type=p['type'], is_array=p['is_array'],
                                 embedded_object=p['embedded']))
    obj = CIMInstance(recipe['classes'][ci]['name'], properties=props)
    if with_path:
        obj.path = instance_path(recipe, ii)
    return obj


_BASE = None


def base_objects():
    "qualifier declarations and the TST_Echo class, compiled once"
    global _BASE
    if _BASE is None:
        c = pywbem_mock.FakedWBEMConnection(default_namespace='root/cimv2')
        c.compile_mof_string(QUALIFIER_MOF)
        c.compile_mof_string(echo_mof())
        echo = c.GetClass('TST_Echo', LocalOnly=True, IncludeQualifiers=True)
        # The MOF compiler leaves embedded_object of method parameters unset
        # and the mock compares that attribute of the declaration with the
        # one of the input parameter: declare it, otherwise every call with
        # an embedded object parameter is refused with INVALID_PARAMETER and
        # the embedded-object paths of InvokeMethod are never compared
        for meth in echo.methods.values():
            for par in meth.parameters.values():
                if 'EmbeddedInstance' in par.qualifiers:
                    par.embedded_object = 'instance'
                elif 'EmbeddedObject' in par.qualifiers:
                    par.embedded_object = 'object'
        _BASE = (c.EnumerateQualifiers(), echo)
    return _BASE


def materialize(recipe, echo=True, **kw):
    "FakedWBEMConnection holding the repository of the recipe"
    conn = pywbem_mock.FakedWBEMConnection(
        default_namespace=kw.pop('default_namespace',
                                 recipe['namespaces'][0]), **kw)
    qdecls, echo_cls = base_objects()
    for ns in recipe['namespaces']:
        if ns not in conn.namespaces:
            conn.add_namespace(ns)
        conn.add_cimobjects([q.copy() for q in qdecls], namespace=ns)
        if echo:
            conn.add_cimobjects(echo_cls.copy(), namespace=ns)
    for ci, c in enumerate(recipe['classes']):
        klass = build_class(recipe, ci)
        for nsi in c['nss']:
            conn.CreateClass(klass, namespace=recipe['namespaces'][nsi])
    for ii, inst in enumerate(recipe['instances']):
        conn.CreateInstance(build_instance(recipe, ii),
                            namespace=recipe['namespaces'][inst['ns']])
    if echo:
        for ns in recipe['namespaces']:
            conn.CreateInstance(CIMInstance('TST_Echo',
                                            properties={'ID': 'e1',
                                                        'Note': 'n'}),
                                namespace=ns)
        conn.register_provider(EchoProvider(conn.cimrepository),
                               namespaces=recipe['namespaces'])
    return conn


def repo_strategy(**kw):
    @st.composite
    def strat(draw):
        return g_repo(draw, **kw)
    return strat()
