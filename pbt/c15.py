"""
C15 - Iter... operations equal the traditional result, with or without pull;
clean up.  DESIGN.md 4.15.

History check on one long-lived FakedWBEMConnection (use_pull_operations in
True/False/None, server pull support enabled/disabled/toggled) holding a
generated repository.  Each call step runs one Iter... operation with a
consumption pattern (exhaust, close() after k items, drop + gc.collect(),
suspend and resume later, a failure injected at the j-th Open/Pull request:
a CIM status, or something that is not a CIM status - ConnectionError,
TimeoutError, HTTPError, a response that is not well-formed XML, a response
without / with unusable EndOfSequence and EnumerationContext).  Per call the expected objects are the result of the equivalent
traditional operation on a second connection object to the same mock server
that never runs an Iter... operation, and the same Iter... call is also made
on a brand-new connection object (same use_pull_operations) to that server.
For a share of the histories and matrix cases the server side hands out a
new enumeration context value with every Open/Pull response and refuses any
other value ('rotating contexts', legal per DSP0200; pywbem_mock keeps the
value constant over a session).
Sub-check errmatrix enumerates 'error in the middle' completely: all 7 Iter
operations x use_pull_operations {None, True} x every kind of failure x
position of the failing request x server keeps / closes the enumeration.
"""

import gc
import sys
from collections import Counter

from hypothesis import strategies as st

import pywbem
import pywbem_mock
from pywbem import (CIMInstanceName, CIMClassName, CIMInstance, CIMClass,
                    CIMProperty, CIMQualifier, CIMQualifierDeclaration,
                    CIMError, Uint32)

from .runner import Sub
from . import strategies as S
from .normalize import canon, EXACT

PROPERTY = 'C15'
RULE = (
    "history: repository recipe (C15_Base <- C15_Mid <- C15_Leaf, C15_Other, "
    "association C15_Link with a hub instance on either side, C15_X in a "
    "second namespace; every instance count drawn from 0..12) x "
    "use_pull_operations in {None, True, False} x initial server pull "
    "support x server keeps the enumeration context value of a session "
    "(60%) / hands out a new value with every Open/Pull response and "
    "refuses stale ones with CIM_ERR_INVALID_ENUMERATION_CONTEXT (40%, "
    "class rotating-contexts; rotating-contexts:<op>:>=2-pulls = a Pull "
    "had to carry the context of a Pull response, rotating-contexts:close-"
    "with-context-of-a-pull-response likewise for CloseEnumeration), then up to N steps on ONE connection: call (6 generator Iter "
    "operations [+ IterQueryInstances in sub-check query]; targets = every "
    "class / hub and ordinary instances / non-existing class, instance, "
    "namespace; class names and namespaces in other lexical case, with "
    "slashes, as CIMClassName with namespace/host; DeepInheritance, "
    "LocalOnly, IncludeQualifiers, IncludeClassOrigin, PropertyList, "
    "Role/ResultClass/AssocClass/ResultRole filters, OperationTimeout, "
    "FilterQueryLanguage/FilterQuery, ContinueOnError None/False/True; "
    "MaxObjectCount in 1, 2, 3, 5, size-1, size, size+1, 100, 1000, Uint32, "
    "default, and the invalid 0, None, -1, str, float; consumption = exhaust "
    "| close() after k items (k may be 0) | drop the generator + "
    "gc.collect() after k items | suspend after k items (resumed, closed or "
    "dropped by a later step, so several enumerations interleave) | a "
    "failure injected at the j-th Open/Pull request of the call: CIMError "
    "(FAILED, ACCESS_DENIED, NOT_SUPPORTED), or not a CIM status: "
    "ConnectionError, TimeoutError, HTTPError, XMLParseError (response cut "
    "off) raised in place of the exchange, or the server's real response "
    "without EndOfSequence+EnumerationContext / without EnumerationContext "
    "/ with an invalid EndOfSequence value (pywbem raises CIMXMLParseError "
    "itself); the server keeping or (DSP0200, ContinueOnError false) "
    "closing the enumeration), toggle (server pull support switched), "
    "resume.  errmatrix: all 7 Iter operations (incl. IterQueryInstances) "
    "x use_pull {None, True} x 2 CIM status codes + the 7 non-CIM failures "
    "x constant / rotating context values "
    "x failing request = 1st Pull, 2nd Pull, Open (thorough: also the last "
    "Pull, result sizes 4 and 7) x server keeps / closes the enumeration, "
    "plus one undisturbed call at the end, "
    "MaxObjectCount 1, enumerated completely (one history per operation x "
    "use_pull x failure, so the first call meets an undetermined family "
    "and the later ones a decided one); evidence classes error-in-the-"
    "middle:<CIMError|non-CIMError>:<op>:server-context-still-open count "
    "the histories in which a request failed while the server still held "
    "the enumeration, i.e. where the clean-up clause has something to do.  "
    "matrix: all 6 generator operations x use_pull {None, True, "
    "False} x server pull {on, off} x result size 0..6 (thorough: 0..12) x "
    "MaxObjectCount 1..size+1 x {exhaust, close after 1, drop after 1} "
    "(thorough: also close after 0 / size-1, drop after size), and every "
    "case that makes at least one Pull request (use_pull not False, server "
    "pull on, MaxObjectCount < size) also with rotating context values, "
    "enumerated completely.  Non-trivial history = it contains a call that made >= 2 "
    "Open/Pull round trips, or a call made after the connection's knowledge "
    "about pull support changed (a call that decided an undetermined "
    "family, or a server toggle after a decided family), or an enumeration "
    "ended early (close/drop/injected error while the server still held "
    "objects).  Distinct = distinct history.")
ASSUMPTIONS = [
    "expected objects = result of the equivalent traditional operation "
    "(EnumerateInstances, EnumerateInstanceNames, Associators, "
    "AssociatorNames, References, ReferenceNames, ExecQuery) with the same "
    "arguments on a second connection that never runs an Iter... operation; "
    "'fresh'/'second' connections are new FakedWBEMConnection objects that "
    "share the server side of the long-lived one (its _cimrepository, "
    "_provider_registry, _providerdispatcher, _mainprovider attributes), "
    "i.e. several clients of one server; results are compared as multisets "
    "of canonical forms "
    "(order is not part of the statement; the mock's association results "
    "are set-ordered)",
    "IterEnumerateInstances / IterEnumerateInstancePaths: every yielded path "
    "must carry the namespace and host == conn.host (statement + 'always "
    "include host and namespace' in the Returns sections); for the four "
    "association operations the host is compared with what the traditional "
    "operation of the mock returns (the traditional CIM-XML format carries "
    "it); namespace and host compare case-insensitively",
    "when pull operations are used the docstrings say LocalOnly and "
    "IncludeQualifiers are ignored: the expected objects are then those of "
    "the traditional operation with LocalOnly=False, IncludeQualifiers=False",
    "FilterQuery/FilterQueryLanguage with pull operations has no traditional "
    "equivalent (and the mock does not evaluate filters): only 'succeeds "
    "with a sub-multiset of the unfiltered result, or raises CIMError' is "
    "asserted, plus clean-up",
    "ContinueOnError=True with pull operations: success or "
    "CIM_ERR_CONTINUATION_ON_ERROR_NOT_SUPPORTED are both accepted",
    "ReturnQueryResultClass=True with the traditional fallback: ValueError "
    "is accepted (ExecQuery cannot return the class; pinned by "
    "test_itermethods.py) although the docstring does not list it",
    "use_pull_operations=None: after a family learned that the server does "
    "NOT support pull, later calls of that family use the traditional "
    "operation even if the server supports pull by then (constructor "
    "docstring: 'will use a traditional operation from then on, on this "
    "connection'); the consequences (ValueError for FilterQuery / "
    "ContinueOnError) are accepted.  The opposite direction is not "
    "documented and is judged by the statement's last clause",
    "an injected CIM_ERR_NOT_SUPPORTED / CIM_ERR_FAILED answer to the Open "
    "request is 'the server does not support pull' for an undetermined "
    "family (documented fallback, remembered), and CIM_ERR_NOT_SUPPORTED "
    "also for a family that used pull before (raising it is accepted too); "
    "the model's family flag follows the fallback as soon as the call went "
    "on, however the iterator is consumed afterwards.  Later calls of the "
    "family then use the traditional operation: ValueError for FilterQuery "
    "/ ContinueOnError / ReturnQueryResultClass is the documented outcome "
    "whether or not the call would otherwise fail with a CIMError, and "
    "where two documented errors apply to one call (that ValueError and "
    "the CIMError of the traditional operation; the CIMError of the "
    "traditional operation and CONTINUATION_ON_ERROR_NOT_SUPPORTED) either "
    "is accepted",
    "OperationTimeout is limited to None/0/1/40 (the mock refuses values "
    "above pywbem_mock.config.OPEN_MAX_TIMEOUT, the traditional operations "
    "have no such argument)",
    "server pull support is only toggled while no enumeration of the "
    "connection is suspended (suspended ones are closed first)",
    "injected server errors: raised by a wrapper around the connection's "
    "request function (conn._imethodcall) at the j-th Open/Pull request of "
    "one call; mode 'drop' also removes the enumeration context on the "
    "server (DSP0200: with ContinueOnError false the session is closed when "
    "a Pull fails) and is used only when ContinueOnError is not True; the "
    "iterator must raise the injected error (CIM_ERR_FAILED / "
    "CIM_ERR_NOT_SUPPORTED at the Open request of an undetermined family "
    "means fallback, as documented)",
    "injected failures that are not a CIM status: ConnectionError, "
    "TimeoutError, HTTPError(503) and XMLParseError are raised by the same "
    "wrapper in place of the exchange (that is where WBEMConnection."
    "_imethodcall raises them; the server does not see the request); for "
    "the 'rsp-...' kinds the mock server processes the request and the "
    "wrapper removes / spoils the EndOfSequence and EnumerationContext out "
    "parameters of its response, so that pywbem's own response check "
    "raises CIMXMLParseError (a subclass of ParseError).  The iterator "
    "must raise an exception of that class, the objects delivered before "
    "must belong to the expected result, and - 'closing or abandoning the "
    "iterator early closes the server-side enumeration' does not depend on "
    "why the iteration ended - no enumeration context may be left on the "
    "server: the client still knows the context of the last good response. "
    "Exception: a spoiled response to the Open request never told the "
    "client a context, so the wrapper removes that context itself",
    "rotating contexts: DSP0200 makes the EnumerationContext an opaque "
    "value that the client must take from the previous response of the "
    "session, so a server may change the value with every response "
    "(Pull... docstrings: the context 'must have been returned by the "
    "previous open or pull operation for this enumeration session'); the "
    "wrapper around conn._imethodcall replaces the value "
    "in every Open/Pull response of the mock by a new one, maps it back "
    "on the next Pull/CloseEnumeration request and answers a request with "
    "any other value with CIM_ERR_INVALID_ENUMERATION_CONTEXT (the session "
    "stays open).  Results, errors and clean-up must be the same as with "
    "constant values.  A response spoiled by an injected 'rsp-...' failure "
    "does not rotate the value (the client could not learn the new one; "
    "the value it knows stays valid so that the clean-up clause remains "
    "checkable).  Fresh / second connections talk to the server directly",
    "the server's context table is read through "
    "conn._mainprovider.enumeration_contexts (keys only); with suspended "
    "enumerations it may hold at most one context per suspended one",
    "sub-check query: the mock does not implement ExecQuery; like pywbem's "
    "own test_openqueryinstances the main provider gets an ExecQuery "
    "('SELECT * FROM <class>' -> instances of the class and subclasses), "
    "and the connection-level _imeth_ExecQuery (which wraps the provider "
    "result wrongly, 'Issue 2064 untested') is replaced by one returning "
    "the instances as VALUE.OBJECTWITHLOCALPATH items.  Query instances are "
    "compared without their path (IterQueryInstances: 'instances do not "
    "have an instance path set')",
]
SENSITIVITY = [
    "IterEnumerateInstances: CloseEnumeration removed from the finally block "
    "-> history/context-leak:after-close, :after-drop, :after-error",
    "IterReferenceInstancePaths: CloseEnumeration removed from the finally "
    "block -> history/context-leak:after-close, :after-drop, :after-error",
    "IterQueryInstances: CloseEnumeration removed from the finally block -> "
    "query/context-leak:after-error, query/context-leak:fresh-connection-"
    "after-error",
    "IterQueryInstances: clean-up 'finally:' turned into 'except CIMError: "
    "<close>; raise' (/tmp/seeded_out/C15/change3.diff) -> errmatrix/"
    "context-leak:after-non-CIM-error (28 hits = 7 failures x use_pull "
    "{None, True} x 1st/2nd Pull), query/context-leak:after-non-CIM-error",
    "IterEnumerateInstancePaths: the same mutation (clean-up only for "
    "CIMError) -> errmatrix/context-leak:after-non-CIM-error, history/"
    "context-leak:after-non-CIM-error, and :after-close / :after-drop",
    "IterReferenceInstances sends every Pull with the context of the Open "
    "response (/tmp/seeded_out/C15/change6.diff) -> matrix/, errmatrix/, "
    "history/rotating-contexts:PullInstancesWithPath-with-stale-context:"
    "RefInst",
    "IterEnumerateInstances fallback no longer sets path.host -> "
    "history/path-host:EnumInst:trad:missing",
    "IterEnumerateInstancePaths fallback no longer sets path.host -> "
    "history/path-host:EnumPath:trad:missing",
    "IterEnumerateInstancePaths uses the flag of IterEnumerateInstances "
    "(_use_enum_inst_pull_operations shared between two families) -> "
    "history/unexpected-error:EnumPath:pull:long-lived:ValueError, "
    "history/unexpected-error:EnumPath:trad:long-lived:CIMError-7, "
    "history/wrong-error:EnumPath:trad:expected-FilterQuery-with-fallback:"
    "got-CIMError-7",
    "IterEnumerateInstances: 'while not pull_result.eos' -> 'while "
    "pull_result.instances' -> history/unexpected-error:EnumInst:pull:"
    "long-lived:ValueError (and :fresh-connection:)",
    "_validate_MaxObjectCount_Iter accepts 0 -> history/missing-error:"
    "invalid-MaxObjectCount:<op>:<via>, history/invalid-MaxObjectCount:"
    "request-sent-before-rejection",
    "IterAssociatorInstancePaths: fallback also when pull was forced "
    "(flag 'is not False' instead of 'is None') -> history/missing-error:"
    "pull-forced-without-server-pull:AssocPath:pull",
    "IterReferenceInstances fallback drops the Role argument -> "
    "history/result:RefInst:trad:foreign-objects",
    "IterEnumerateInstancePaths drops the first path of every pulled batch "
    "-> history/result:EnumPath:pull:objects-differ",
    "IterAssociatorInstancePaths fallback ignores FilterQuery silently -> "
    "history/missing-error:FilterQuery-with-fallback:AssocPath:trad",
    "IterAssociatorInstances sets its flag True before the Open request "
    "succeeded (no fallback any more) -> history/unexpected-error:AssocInst:"
    "trad:long-lived:CIMError-7 (and :fresh-connection:)",
    "IterQueryInstances keeps only the last pulled batch -> query/result:"
    "Query:pull:objects-lost (only visible once the mock continues "
    "OpenQueryInstances sessions with PullInstances, /repo aeb3745)",
]

NS = 'root/cimv2'
NSX = 'root/other'

ITER_OPS = ['IterEnumerateInstances', 'IterEnumerateInstancePaths',
            'IterAssociatorInstances', 'IterAssociatorInstancePaths',
            'IterReferenceInstances', 'IterReferenceInstancePaths']
QUERY = 'IterQueryInstances'
TRADITIONAL = {
    'IterEnumerateInstances': 'EnumerateInstances',
    'IterEnumerateInstancePaths': 'EnumerateInstanceNames',
    'IterAssociatorInstances': 'Associators',
    'IterAssociatorInstancePaths': 'AssociatorNames',
    'IterReferenceInstances': 'References',
    'IterReferenceInstancePaths': 'ReferenceNames',
    'IterQueryInstances': 'ExecQuery',
}
SHORT = {
    'IterEnumerateInstances': 'EnumInst',
    'IterEnumerateInstancePaths': 'EnumPath',
    'IterAssociatorInstances': 'AssocInst',
    'IterAssociatorInstancePaths': 'AssocPath',
    'IterReferenceInstances': 'RefInst',
    'IterReferenceInstancePaths': 'RefPath',
    'IterQueryInstances': 'Query',
}
ENUM_OPS = ('IterEnumerateInstances', 'IterEnumerateInstancePaths')
# arguments that only the Iter (Open) operation has
ITER_ONLY = ('MaxObjectCount', 'OperationTimeout', 'ContinueOnError',
             'FilterQueryLanguage', 'FilterQuery', 'ReturnQueryResultClass')
NOT_SUPPORTED = pywbem.CIM_ERR_NOT_SUPPORTED
FAILED = pywbem.CIM_ERR_FAILED
COE_UNSUPPORTED = pywbem.CIM_ERR_CONTINUATION_ON_ERROR_NOT_SUPPORTED
INVALID_CONTEXT = pywbem.CIM_ERR_INVALID_ENUMERATION_CONTEXT
NO_ARG = ('default',)

# Failures of one Open/Pull request that are NOT a CIM status: the request
# never gets an answer (exception raised where the HTTP exchange would
# happen) ...
EXC_KINDS = {
    'conn': (pywbem.ConnectionError, 'ConnectionError'),
    'timeout': (pywbem.TimeoutError, 'TimeoutError'),
    'http': (pywbem.HTTPError, 'HTTPError'),
    'xml': (pywbem.XMLParseError, 'XMLParseError'),
}
# ... or the server processes the request and its response is unusable
# (pywbem itself raises CIMXMLParseError when it reads the out parameters)
RSP_KINDS = {
    'rsp-noparams': 'response-without-EndOfSequence-and-EnumerationContext',
    'rsp-noctx': 'response-without-EnumerationContext',
    'rsp-badeos': 'response-with-invalid-EndOfSequence',
}
NON_CIM_KINDS = sorted(EXC_KINDS) + sorted(RSP_KINDS)


def _is_cim(what):
    return isinstance(what, int)


def _inj_exc_class(what):
    if _is_cim(what):
        return CIMError
    if what in EXC_KINDS:
        return EXC_KINDS[what][0]
    return pywbem.CIMXMLParseError


def _inj_name(what):
    if _is_cim(what):
        return 'CIMError-%d' % what
    if what in EXC_KINDS:
        return EXC_KINDS[what][1]
    return 'CIMXMLParseError(%s)' % RSP_KINDS[what]


def _inj_raise(what):
    if _is_cim(what):
        raise CIMError(what, 'injected server error')
    if what == 'conn':
        raise pywbem.ConnectionError('injected')
    if what == 'timeout':
        raise pywbem.TimeoutError('injected: no response within the timeout')
    if what == 'http':
        raise pywbem.HTTPError(503, 'injected: Service Unavailable')
    assert what == 'xml', what
    raise pywbem.XMLParseError('injected: response is cut off (not '
                               'well-formed XML)')


def _mangle_response(result, what):
    "Open/Pull response tuple list of the mock made unusable"
    out = []
    for item in result or []:
        if item[0] == 'EnumerationContext' and \
                what in ('rsp-noparams', 'rsp-noctx'):
            continue
        if item[0] == 'EndOfSequence':
            if what == 'rsp-noparams':
                continue
            item = (item[0], item[1],
                    'FALSE' if what == 'rsp-noctx' else 'MAYBE')
        out.append(item)
    return out


# ---------------------------------------------------------------------------
# repository

def _key():
    return [CIMQualifier('Key', True)]


def _qualdecls(assoc=True):
    out = [CIMQualifierDeclaration(
        'Key', 'boolean', value=False, overridable=False, tosubclass=True,
        scopes={'PROPERTY': True, 'REFERENCE': True})]
    if assoc:
        out.append(CIMQualifierDeclaration(
            'Association', 'boolean', value=False, overridable=False,
            tosubclass=True, scopes={'ASSOCIATION': True}))
    return out


def _classes():
    base = CIMClass('C15_Base', properties=[
        CIMProperty('Id', None, type='uint32', qualifiers=_key()),
        CIMProperty('Name', None, type='string'),
        CIMProperty('Arr', None, type='uint8', is_array=True)])
    mid = CIMClass('C15_Mid', superclass='C15_Base', properties=[
        CIMProperty('M', None, type='string')])
    leaf = CIMClass('C15_Leaf', superclass='C15_Mid', properties=[
        CIMProperty('L', None, type='sint64')])
    other = CIMClass('C15_Other', properties=[
        CIMProperty('K', None, type='string', qualifiers=_key()),
        CIMProperty('When', None, type='datetime')])
    link = CIMClass('C15_Link',
                    qualifiers=[CIMQualifier('Association', True)],
                    properties=[
        CIMProperty('Src', None, type='reference',
                    reference_class='C15_Base', qualifiers=_key()),
        CIMProperty('Dst', None, type='reference',
                    reference_class='C15_Other', qualifiers=_key()),
        CIMProperty('Note', None, type='string')])
    return [base, mid, leaf, other, link]


def _xclass():
    return CIMClass('C15_X', properties=[
        CIMProperty('Id', None, type='uint32', qualifiers=_key()),
        CIMProperty('Txt', None, type='string')])


def _base_inst(cls, i, extra=()):
    props = [CIMProperty('Id', Uint32(i)),
             CIMProperty('Name', '%s <%d> & "x"' % (cls, i))]
    if i % 2 == 0:
        props.append(CIMProperty('Arr', [pywbem.Uint8(i % 250), None],
                                 type='uint8', is_array=True))
    props.extend(extra)
    return CIMInstance(cls, properties=props)


def build_repo(init, use_pull, disabled, stub_query):
    """
    FakedWBEMConnection for the recipe; returns (conn, paths) where paths is
    the dict of created instance paths per class.
    """
    conn = pywbem_mock.FakedWBEMConnection(
        default_namespace=NS, use_pull_operations=use_pull,
        disable_pull_operations=disabled)
    conn.add_cimobjects(_qualdecls(), namespace=NS)
    for c in _classes():
        conn.CreateClass(c, namespace=NS)
    conn.add_namespace(NSX)
    conn.add_cimobjects(_qualdecls(assoc=False), namespace=NSX)
    conn.CreateClass(_xclass(), namespace=NSX)
    paths = {'C15_Base': [], 'C15_Mid': [], 'C15_Leaf': [], 'C15_Other': [],
             'C15_X': [], 'C15_Link': []}
    for i in range(init['nbase']):
        paths['C15_Base'].append(conn.CreateInstance(
            _base_inst('C15_Base', i)))
    for i in range(init['nmid']):
        paths['C15_Mid'].append(conn.CreateInstance(_base_inst(
            'C15_Mid', 100 + i, [CIMProperty('M', 'm%d' % i)])))
    for i in range(init['nleaf']):
        paths['C15_Leaf'].append(conn.CreateInstance(_base_inst(
            'C15_Leaf', 200 + i, [CIMProperty('M', None, type='string'),
                                  CIMProperty('L', pywbem.Sint64(-i))])))
    for i in range(init['nother']):
        paths['C15_Other'].append(conn.CreateInstance(CIMInstance(
            'C15_Other', properties=[
                CIMProperty('K', 'o%d' % i),
                CIMProperty('When', pywbem.CIMDateTime(
                    '2024010%d120000.000000+000' % (1 + i % 9)))])))
    for i in range(init['nx']):
        paths['C15_X'].append(conn.CreateInstance(CIMInstance(
            'C15_X', properties=[CIMProperty('Id', Uint32(i)),
                                 CIMProperty('Txt', 'x%d' % i)]),
            namespace=NSX))
    sources = paths['C15_Base'] + paths['C15_Mid'] + paths['C15_Leaf']
    links = []
    if sources:
        # hub on the Base side: sources[0] -> Other[0..hub)
        for j in range(min(init['hub'], len(paths['C15_Other']))):
            links.append((0, j))
    if paths['C15_Other']:
        # hub on the Other side: sources[1..rev] -> Other[0]
        for i in range(1, min(init['rev'] + 1, len(sources))):
            links.append((i, 0))
    done = set()
    for i, j in links:
        if (i, j) in done:
            continue
        done.add((i, j))
        paths['C15_Link'].append(conn.CreateInstance(CIMInstance(
            'C15_Link', properties=[
                CIMProperty('Src', sources[i], reference_class='C15_Base'),
                CIMProperty('Dst', paths['C15_Other'][j],
                            reference_class='C15_Other'),
                CIMProperty('Note', 'l%d-%d' % (i, j))])))
    if stub_query:
        install_query_stub(conn)
    return conn, paths


def new_client(server_conn, use_pull, stub_query):
    """
    A brand-new connection object to the SAME (mock) server: the server side
    of a FakedWBEMConnection (repository, provider registry, dispatcher and
    main provider incl. its enumeration context table and pull switch) is
    shared, everything the client side remembers is new.
    """
    # pylint: disable=protected-access
    conn = pywbem_mock.FakedWBEMConnection(
        default_namespace=NS, use_pull_operations=use_pull,
        disable_pull_operations=server_conn.disable_pull_operations)
    for attr in ('_cimrepository', '_provider_registry',
                 '_providerdispatcher', '_mainprovider'):
        setattr(conn, attr, getattr(server_conn, attr))
    if stub_query:
        install_query_stub(conn)
    return conn


def install_query_stub(conn):
    "see ASSUMPTIONS (sub-check query)"
    mp = conn._mainprovider  # pylint: disable=protected-access

    def exec_query(namespace, QueryLanguage, Query):
        if ' FROM ' not in Query:
            raise CIMError(pywbem.CIM_ERR_INVALID_QUERY, 'no FROM clause')
        classname = Query.split(' FROM ')[1].split()[0]
        return mp.EnumerateInstances(namespace, classname,
                                     DeepInheritance=True)

    def imeth_exec_query(namespace, **params):
        insts = mp.ExecQuery(namespace=namespace,
                             QueryLanguage=params['QueryLanguage'],
                             Query=params['Query'])
        # pylint: disable=protected-access
        return conn._make_tuple([('VALUE.OBJECTWITHLOCALPATH', {}, i)
                                 for i in insts])
    mp.ExecQuery = exec_query
    conn._imeth_ExecQuery = imeth_exec_query


# ---------------------------------------------------------------------------
# generators (plain data)

_SIZE = st.one_of(st.integers(0, 12), st.integers(3, 12), st.integers(0, 4))
_TRI = [None, None, True, False]
_PLISTS = [None, None, None, [], ['Name'], ['name', 'M'], 'Name',
           ['K', 'Note'], ['Nope']]
_MOC = [1, 1, 1, 1, 2, 2, 2, 3, 3, 5, ('size', -1), ('size', -1),
        ('size', 0), ('size', 0), ('size', 1), 100, 1000, ('u32', 1),
        ('u32', 2), ('u32', 3), NO_ARG]
_MOC_BAD = [0, 0, None, -1, 'abc', 1.5, ('u32', 0)]
_K = [0, 1, 1, 2, 3, ('size', -1), ('size', 0)]
_INJECT_WHAT = [FAILED, FAILED, pywbem.CIM_ERR_ACCESS_DENIED,
                pywbem.CIM_ERR_ACCESS_DENIED, NOT_SUPPORTED,
                'conn', 'conn', 'timeout', 'http', 'xml',
                'rsp-noparams', 'rsp-noctx', 'rsp-badeos']


def g_init(draw, query=False):
    return {'nbase': draw(_SIZE), 'nmid': draw(st.integers(0, 4)),
            'nleaf': draw(st.integers(0, 3)), 'nother': draw(_SIZE),
            'nx': draw(st.integers(0, 5)),
            'hub': draw(_SIZE), 'rev': draw(_SIZE),
            'use_pull': draw(st.sampled_from([None, None, None, True,
                                              False])),
            'disabled': draw(st.sampled_from([None, False, False, True,
                                              True])),
            'rotate': draw(S._I100) < 40,
            'query': query}


def g_consume(draw, allow_suspend=True):
    k = draw(S._I100)
    if k < 45:
        return ('all',)
    if k < 62:
        return ('close', draw(st.sampled_from(_K)))
    if k < 79 or not allow_suspend:
        return ('drop', draw(st.sampled_from(_K)))
    return ('suspend', draw(st.sampled_from([1, 1, 2, 3, ('size', -1)])))


def g_call(draw, query):
    ops = ITER_OPS + ([QUERY] * 6 if query else [])
    which = draw(st.sampled_from(ops))
    a = {}
    if which in ENUM_OPS:
        k = draw(S._I100)
        if k < 30:
            cn = 'C15_Base'
        elif k < 80:
            cn = ['C15_Base', 'C15_Mid', 'C15_Leaf', 'C15_Other',
                  'C15_Link'][k % 5]
        elif k < 85:
            cn = 'c15_BASE'
        elif k < 95:
            cn = 'C15_X'
        else:
            cn = 'C15_Nope'
        if cn == 'C15_X':
            form = draw(st.sampled_from(['ns', 'ns', 'ns/', 'NS', 'cpath',
                                         'cpath+ns']))
        else:
            form = draw(st.sampled_from(['none', 'none', 'ns', 'ns/', 'NS',
                                         'cpath', 'cpath0', 'nope']
                                        if k % 7 else ['nope']))
        a['ClassName'] = (cn, form)
    elif which == QUERY:
        cn = draw(st.sampled_from(['C15_Base', 'C15_Base', 'C15_Other',
                                   'C15_Mid', 'C15_Link', 'C15_X',
                                   'C15_Nope']))
        a['FilterQueryLanguage'] = draw(st.sampled_from(
            ['DMTF:FQL', 'DMTF:FQL', 'DMTF:FQL', 'DMTF:FQL', 'WQL']))
        a['FilterQuery'] = 'SELECT * FROM ' + cn
        a['namespace'] = NSX if cn == 'C15_X' else \
            draw(st.sampled_from([None, NS]))
        a['ReturnQueryResultClass'] = draw(st.sampled_from(
            [None, None, None, False, True]))
    else:
        k = draw(S._I100)
        if k < 35:
            tgt = ('src', 0)                    # hub on the Base side
        elif k < 65:
            tgt = ('other', 0)                  # hub on the Other side
        elif k < 80:
            tgt = ('src', draw(S._I100))
        elif k < 93:
            tgt = ('other', draw(S._I100))
        else:
            tgt = ('none', 0)
        a['InstanceName'] = tgt + (draw(st.sampled_from(
            ['plain', 'plain', 'nons', 'host'])),)
        a['ResultClass'] = draw(st.sampled_from(
            [None] * 8 + ['C15_Link', 'C15_Other', 'C15_Base', 'C15_Mid']))
        a['Role'] = draw(st.sampled_from([None] * 8 + ['Src', 'Dst', 'src']))
        if 'Associator' in which:
            a['AssocClass'] = draw(st.sampled_from([None] * 4 +
                                                   ['C15_Link']))
            a['ResultRole'] = draw(st.sampled_from([None] * 8 +
                                                   ['Src', 'Dst']))
    if which.endswith('Instances') and which != QUERY:
        a['IncludeClassOrigin'] = draw(st.sampled_from(_TRI))
        a['IncludeQualifiers'] = draw(st.sampled_from(_TRI))
        a['PropertyList'] = draw(st.sampled_from(_PLISTS))
        if which == 'IterEnumerateInstances':
            a['DeepInheritance'] = draw(st.sampled_from(_TRI))
            a['LocalOnly'] = draw(st.sampled_from([False, False, None,
                                                   True]))
    if which != QUERY and draw(S._I100) < 12:
        a['FilterQueryLanguage'] = draw(st.sampled_from(
            ['DMTF:FQL', 'DMTF:FQL', 'DMTF:FQL', 'WQL', None]))
        a['FilterQuery'] = draw(st.sampled_from(
            ['Id > 3', 'Id > 3', None] if a['FilterQueryLanguage']
            else ['Id > 3']))
    a['OperationTimeout'] = draw(st.sampled_from(
        [None] * 12 + [0, 1, 40, 40]))
    a['ContinueOnError'] = draw(st.sampled_from(
        [None] * 8 + [False, True]))
    if draw(S._I100) < 5:
        a['MaxObjectCount'] = draw(st.sampled_from(_MOC_BAD))
    else:
        a['MaxObjectCount'] = draw(st.sampled_from(_MOC))
    inject = None
    if draw(S._I100) < (26 if which == QUERY else 20):
        what = draw(st.sampled_from(_INJECT_WHAT))
        inject = {'at': draw(st.sampled_from([0, 1, 1, 1, 2, 2, 3])),
                  'what': what,
                  'mode': draw(st.sampled_from(['keep', 'drop']))}
        if not _is_bad_moc(a['MaxObjectCount']):
            # several round trips, so that the j-th request exists
            a['MaxObjectCount'] = draw(st.sampled_from([1, 1, 2]))
    return {'op': 'call', 'which': which, 'args': a,
            'consume': g_consume(draw, allow_suspend=which != QUERY),
            'inject': inject}


def g_step(draw, m):
    k = draw(S._I100)
    nsusp = len(m.suspended)
    if nsusp and k < 30:
        return {'op': 'resume', 'g': draw(S._I100),
                'consume': g_consume(draw)}
    if k < 82 or not m.recs:
        return g_call(draw, m.query)
    return {'op': 'toggle'}


# ---------------------------------------------------------------------------
# canonical forms

def _walk(c, fn):
    if isinstance(c, tuple):
        if c and c[0] == 'ipath' and len(c) == 5:
            c = fn(c)
        return tuple(_walk(x, fn) for x in c)
    return c


def _lower_loc(c):
    "namespace and host compare case-insensitively"
    return _walk(c, lambda p: (p[0], p[1],
                               p[2].lower() if p[2] else p[2],
                               p[3].lower() if p[3] else p[3], p[4]))


def _no_host(c):
    return _walk(c, lambda p: (p[0], p[1], None, p[3], p[4]))


def _no_ns(c):
    return _walk(c, lambda p: (p[0], p[1], None, None, p[4]))


def _top_path(c):
    return c[2] if c[0] == 'inst' else c


class Pred:
    "predicted outcome of a completely consumed call"
    def __init__(self, kind, items=None, exc=None, code=None, why='',
                 also_code=None):
        self.kind = kind          # ok | err | filter
        self.items = items        # Counter of canonical forms
        self.exc = exc            # exception class(es)
        self.code = code          # CIM status code or None
        self.why = why
        # acceptable CIMError code besides ok / besides the predicted error
        # (two documented errors apply to the call: either is accepted)
        self.also_code = also_code

    def __repr__(self):
        if self.kind == 'err':
            return 'raises %s%s (%s)' % (
                getattr(self.exc, '__name__', None) or
                '/'.join(e.__name__ for e in self.exc),
                '' if self.code is None else ' code %d' % self.code,
                self.why)
        return '%s: %d objects' % (self.kind, sum(self.items.values()))


class Rec:
    "one Iter... call"
    def __init__(self, idx, step):
        self.idx = idx
        self.step = step
        self.which = step['which']
        self.gen = None
        self.qrc = None
        self.got = []             # canonical forms delivered so far
        self.state = 'new'        # new | suspended | done
        self.started = False
        self.requests = []        # request names made for this call
        self.session_requests = 0
        self.inject = None
        self.injected = False
        self.open_at_error = False  # server still held the context then
        self.stale = []           # requests refused for a stale context
        self.bad_moc = False
        self.kwargs = None
        self.e_trad = None        # ('ok', Counter) | ('err', code)
        self.e_pull = None
        self.via = None           # path the long-lived connection takes
        self.ideal = None         # path a fresh connection takes
        self.pred = None
        self.alt = None
        self.fresh = None         # (status, Counter) of the fresh connection
        self.flag_before = None
        self.enabled = None
        self.ended_early = False


# ---------------------------------------------------------------------------
# machine

class Machine:
    QUERY = False

    def __init__(self, ctx):
        self.ctx = ctx
        self.conn = None
        self.ref = None
        self.paths = None
        self.init = None
        self.query = self.QUERY
        self.recs = []
        self.suspended = []
        self.active = None
        self.flags = {}
        self.enabled = True
        self.leak_base = 0
        self.classes = set()
        self.nontrivial = False
        self.knowledge_changed = False
        self.unraisable = []
        self._old_hook = None
        self.rotate = False       # server hands out a new context value
        self.ctxmap = {}          # with every response: current value -> key
        self.ctxgen = {}          # server key -> number of values issued
        self.ctxseq = 0

    # ---- generation ------------------------------------------------------

    def init_strategy(self):
        query = self.QUERY

        @st.composite
        def strat(draw):
            return g_init(draw, query)
        return strat()

    def step_strategy(self):
        m = self

        @st.composite
        def strat(draw):
            return g_step(draw, m)
        return strat()

    # ---- setup -----------------------------------------------------------

    def setup(self, init):
        self.init = init
        self.query = init.get('query', False)
        self.enabled = not init['disabled']
        self.conn, self.paths = build_repo(init, init['use_pull'],
                                           init['disabled'], self.query)
        self.ref = new_client(self.conn, False, self.query)
        self.flags = {op: init['use_pull'] for op in ITER_OPS + [QUERY]}
        self._install_tap(self.conn)
        self._old_hook = sys.unraisablehook
        sys.unraisablehook = self._unraisable
        self.rotate = bool(init.get('rotate'))
        if self.rotate:
            self.classes.add('rotating-contexts')
        self.classes.add('use_pull=%s' % init['use_pull'])
        self.classes.add('server-pull-initially-%s' %
                         ('on' if self.enabled else 'off'))

    def _unraisable(self, info):
        self.unraisable.append(info.exc_value)

    def teardown(self):
        if self._old_hook is not None:
            sys.unraisablehook = self._old_hook
            self._old_hook = None
        for rec in self.recs:
            rec.gen = None
        self.conn = None
        self.ref = None

    @property
    def table(self):
        # pylint: disable=protected-access
        return self.conn._mainprovider.enumeration_contexts

    def _install_tap(self, conn):
        """
        Observe (and for injected errors, answer) the requests the connection
        sends; this is the place where the HTTP exchange would happen.
        """
        orig = conn._imethodcall  # pylint: disable=protected-access
        m = self

        def serve(methodname, namespace, *args, **kw):
            "the server; rotating contexts: a new value with every response"
            result = orig(methodname, namespace, *args, **kw)
            if m.rotate and methodname.startswith(('Open', 'Pull')):
                result = m._rotate(result)
            return result

        def tap(methodname, namespace, *args, **kw):
            rec = m.active
            if rec is not None:
                rec.requests.append(methodname)
            if m.rotate and 'EnumerationContext' in kw:
                # only the value of the latest response names the session
                value = kw['EnumerationContext']
                key = m.ctxmap.get(value)
                if key is None:
                    if rec is not None:
                        rec.stale.append(methodname)
                    raise CIMError(
                        INVALID_CONTEXT, 'harness server with rotating '
                        'contexts: %r is not the enumeration context of the '
                        'latest response of an open session' % (value,))
                kw = dict(kw, EnumerationContext=key)
                if m.ctxgen.get(key, 0) >= 2:
                    m.classes.add('rotating-contexts:%s-with-context-of-a-'
                                  'pull-response' % (
                                      'pull' if methodname.startswith('Pull')
                                      else 'close'))
                    if rec is not None and methodname.startswith('Pull'):
                        m.classes.add('rotating-contexts:%s:>=2-pulls' %
                                      SHORT[rec.which])
            if rec is not None:
                if methodname.startswith(('Open', 'Pull')):
                    idx = rec.session_requests
                    rec.session_requests += 1
                    inj = rec.inject
                    if inj and not rec.injected and idx == inj['at']:
                        return m._inject(rec, inj, orig, methodname,
                                         namespace, args, kw)
            return serve(methodname, namespace, *args, **kw)
        conn._imethodcall = tap  # pylint: disable=protected-access

    def _rotate(self, result):
        """
        Open/Pull response with a brand-new EnumerationContext value (DSP0200:
        the client passes on the context of the previous response; a server
        may change the value with every response).  The old value of the
        session is forgotten.
        """
        out = []
        for item in result or []:
            if item[0] == 'EnumerationContext' and item[2]:
                key = item[2]
                for value in [v for v, k in self.ctxmap.items() if k == key]:
                    del self.ctxmap[value]
                self.ctxseq += 1
                value = 'rot-%d-of-%s' % (self.ctxseq, key)
                self.ctxmap[value] = key
                self.ctxgen[key] = self.ctxgen.get(key, 0) + 1
                item = (item[0], item[1], value)
            out.append(item)
        return out

    def _inject(self, rec, inj, orig, methodname, namespace, args, kw):
        """
        answer the j-th Open/Pull request of a call with the injected
        failure: an exception in place of the exchange, or (RSP_KINDS) the
        server's real response made unusable
        """
        what = inj['what']
        pull = methodname.startswith('Pull')
        key = kw.get('EnumerationContext') if pull else None
        if what in RSP_KINDS:
            known = set(self.table)
            # an error of the server itself is not an injected one.  With
            # rotating contexts: a response the client cannot use does not
            # rotate (the value the client knows stays the valid one), an
            # error answer carries no context at all
            result = orig(methodname, namespace, *args, **kw)
            rec.injected = True
            result = _mangle_response(result, what)
            if not pull:
                # the client cannot learn the context from this response:
                # nothing it could close (the server's timeout does it)
                for k in set(self.table) - known:
                    self.table.pop(k, None)
            elif inj['mode'] == 'drop':
                self.table.pop(key, None)
            rec.open_at_error = pull and key in self.table
            return result
        rec.injected = True
        if inj['mode'] == 'drop' and pull:
            self.table.pop(key, None)
        rec.open_at_error = pull and key in self.table
        return _inj_raise(what)

    # ---- helpers ---------------------------------------------------------

    def fail(self, sig, detail):
        self.ctx.fail(sig, detail)

    def _sources(self, paths):
        return paths['C15_Base'] + paths['C15_Mid'] + paths['C15_Leaf']

    def _target(self, tgt, paths):
        kind, i, form = tgt
        p = None
        if kind == 'src':
            src = self._sources(paths)
            if src:
                p = src[i % len(src)].copy()
        elif kind == 'other' and paths['C15_Other']:
            lst = paths['C15_Other']
            p = lst[i % len(lst)].copy()
        if p is None:
            p = CIMInstanceName('C15_Base', keybindings=[('Id',
                                                          Uint32(99999))],
                                namespace=NS)
        if form == 'nons':
            p.namespace = None
        elif form == 'host':
            p.host = 'elsewhere.example.com'
        return p

    def _kwargs(self, rec, paths, size=None):
        "keyword arguments of the Iter call built from the step recipe"
        kw = {}
        for name, v in rec.step['args'].items():
            if name == 'ClassName':
                cn, form = v
                home = NSX if cn == 'C15_X' else NS
                if form == 'none':
                    kw['ClassName'] = cn
                elif form == 'ns':
                    kw['ClassName'] = cn
                    kw['namespace'] = home
                elif form == 'ns/':
                    kw['ClassName'] = cn
                    kw['namespace'] = '/' + home + '/'
                elif form == 'NS':
                    kw['ClassName'] = cn
                    kw['namespace'] = home.upper()
                elif form == 'cpath':
                    kw['ClassName'] = CIMClassName(cn, namespace=home,
                                                   host='elsewhere:5989')
                elif form == 'cpath0':
                    kw['ClassName'] = CIMClassName(cn)
                elif form == 'cpath+ns':
                    # the namespace argument wins over the one in the path
                    kw['ClassName'] = CIMClassName(cn, namespace=NS)
                    kw['namespace'] = home
                elif form == 'nope':
                    kw['ClassName'] = cn
                    kw['namespace'] = 'root/nope'
            elif name == 'InstanceName':
                kw[name] = self._target(v, paths)
            elif name == 'MaxObjectCount':
                if v == NO_ARG:
                    continue
                if isinstance(v, tuple) and v[0] == 'size':
                    v = max(1, (size or 0) + v[1])
                elif isinstance(v, tuple) and v[0] == 'u32':
                    v = Uint32(v[1])
                kw[name] = v
            elif isinstance(v, list):
                kw[name] = list(v)
            else:
                kw[name] = v
        return kw

    def _canon(self, which, obj):
        if which == QUERY:
            obj = obj.copy()
            obj.path = None
        return _lower_loc(canon(obj, EXACT))

    def _traditional(self, rec, kw, pull_semantics):
        """
        Result of the equivalent traditional operation on the twin
        connection: ('ok', Counter) or ('err', status code)
        """
        tkw = {k: v for k, v in kw.items() if k not in ITER_ONLY}
        if rec.which == QUERY:
            tkw = {'QueryLanguage': kw['FilterQueryLanguage'],
                   'Query': kw['FilterQuery'],
                   'namespace': kw.get('namespace')}
        if 'InstanceName' in tkw:
            tkw['ObjectName'] = tkw.pop('InstanceName')
        if pull_semantics:
            if 'LocalOnly' in tkw:
                tkw['LocalOnly'] = False
            if 'IncludeQualifiers' in tkw:
                tkw['IncludeQualifiers'] = False
        try:
            objs = getattr(self.ref, TRADITIONAL[rec.which])(**tkw)
        except CIMError as exc:
            return ('err', exc.status_code)
        out = Counter()
        host = self.conn.host
        for o in objs:
            if rec.which in ENUM_OPS:
                # the traditional response format carries no host here
                p = o if isinstance(o, CIMInstanceName) else o.path
                if p.host is None:
                    p.host = host
            out[self._canon(rec.which, o)] += 1
        return ('ok', out)

    # ---- prediction ------------------------------------------------------

    @staticmethod
    def _has_filter(kw):
        return kw.get('FilterQuery') is not None or \
            kw.get('FilterQueryLanguage') is not None

    def _predict(self, rec, path, enabled):
        kw = rec.kwargs
        if rec.bad_moc:
            return Pred('err', exc=(ValueError, TypeError),
                        why='invalid-MaxObjectCount')
        query = rec.which == QUERY
        if path == 'pull':
            if not enabled:
                return Pred('err', exc=CIMError, code=NOT_SUPPORTED,
                            why='pull-forced-without-server-pull')
            e = rec.e_pull
            if self._has_filter(kw) and not query:
                return Pred('filter', items=e[1] if e[0] == 'ok'
                            else Counter())
            if query and kw['FilterQueryLanguage'] != 'DMTF:FQL':
                # the mock's Open operations know DMTF:FQL only
                return Pred('err', exc=CIMError, why='server-decides')
            coe = COE_UNSUPPORTED if kw.get('ContinueOnError') else None
            if e[0] == 'err':
                return Pred('err', exc=CIMError, code=e[1],
                            why='same-error-as-traditional', also_code=coe)
            return Pred('ok', items=e[1], also_code=coe)
        # traditional fallback: ValueError for the arguments it cannot pass
        # on is documented whether or not the traditional operation would
        # fail as well; if it would, its CIMError is a documented outcome too
        e = rec.e_trad
        tcode = e[1] if e[0] == 'err' else None
        if self._has_filter(kw) and not query:
            return Pred('err', exc=ValueError, why='FilterQuery-with-fallback',
                        also_code=tcode)
        if kw.get('ContinueOnError'):
            return Pred('err', exc=ValueError,
                        why='ContinueOnError-with-fallback', also_code=tcode)
        if query and kw.get('ReturnQueryResultClass'):
            return Pred('err', exc=ValueError,
                        why='ReturnQueryResultClass-with-fallback',
                        also_code=tcode)
        if e[0] == 'err':
            return Pred('err', exc=CIMError, code=e[1],
                        why='same-error-as-traditional')
        return Pred('ok', items=e[1])

    def _open_decides(self, rec):
        """
        What an undetermined family learns from the Open request of this
        call when the server supports pull: True / False / None (nothing)
        """
        kw = rec.kwargs
        fql, fq = kw.get('FilterQueryLanguage'), kw.get('FilterQuery')
        if rec.which == QUERY:
            if fql != 'DMTF:FQL':
                return None
        elif (not fql and fq) or (fql and fql != 'DMTF:FQL'):
            return None         # refused with another status code
        e = rec.e_pull
        if e[0] == 'ok':
            return True
        if e[1] in (NOT_SUPPORTED, FAILED):
            return False
        return None

    # ---- running a call --------------------------------------------------

    def _advance(self, rec, k):
        """
        take up to k more objects (None: all).  Returns 'more', 'end' or the
        exception raised by the iterator.
        """
        first = not rec.started
        status = self._advance1(rec, k)
        if first and rec.idx >= 0:
            self._learn_after_start(rec, status)
        return status

    def _learn_after_start(self, rec, status):
        """
        A family that knew pull as supported meets a server without pull:
        the call either fails (sticky flag, reported) or falls back; in the
        latter case the family has learned 'unsupported' (documented to be
        remembered from then on).
        """
        if self.init['use_pull'] is None and rec.flag_before is True and \
                not rec.enabled and not rec.bad_moc and \
                self.flags[rec.which] is True and not (
                    isinstance(status, CIMError) and
                    status.status_code == NOT_SUPPORTED):
            self.flags[rec.which] = False
            self.knowledge_changed = True
            self.classes.add('family-unlearned-pull-by-falling-back')
        inj = rec.inject
        if rec.injected and inj['at'] == 0 and \
                inj['what'] == NOT_SUPPORTED and \
                self.init['use_pull'] is None and \
                rec.flag_before is True and \
                self.flags[rec.which] is True and not (
                    isinstance(status, CIMError) and
                    status.status_code == NOT_SUPPORTED):
            # the same, the 'server without pull' being an injected
            # CIM_ERR_NOT_SUPPORTED answer to the Open request: the call
            # went on with the traditional operation, whatever is done with
            # the iterator afterwards (exhausted, closed, dropped, suspended)
            self.flags[rec.which] = False
            self.knowledge_changed = True
            self.classes.add('inject:open-error-means-fallback')
            self.classes.add('family-unlearned-pull-by-falling-back')

    def _advance1(self, rec, k):
        self.active = rec
        rec.started = True
        try:
            n = 0
            while k is None or n < k:
                try:
                    obj = next(rec.gen)
                except StopIteration:
                    rec.state = 'done'
                    return 'end'
                rec.got.append(self._canon(rec.which, obj))
                n += 1
            return 'more'
        except (pywbem.Error, ValueError, TypeError) as exc:
            rec.state = 'done'
            return exc
        finally:
            self.active = None

    def _create(self, rec, conn, kw):
        "call the Iter method; returns None or the exception raised"
        if rec.which != QUERY:
            rec.gen = getattr(conn, rec.which)(**kw)
            return None
        self.active = rec if conn is self.conn else None
        rec.started = True
        try:
            res = conn.IterQueryInstances(**kw)
        except (pywbem.Error, ValueError, TypeError) as exc:
            if rec.idx >= 0:
                self._learn_after_start(rec, exc)
            return exc
        finally:
            self.active = None
        if rec.idx >= 0:
            self._learn_after_start(rec, 'more')
        rec.gen = res.generator
        rec.qrc = res.query_result_class
        if rec.qrc is not None and not kw.get('ReturnQueryResultClass'):
            self.fail('query:result-class-returned-though-not-requested',
                      '%s: %r' % (self._describe(rec), rec.qrc))
        elif kw.get('ReturnQueryResultClass') and \
                not isinstance(rec.qrc, CIMClass):
            self.fail('query:result-class-missing-though-requested',
                      '%s: %r' % (self._describe(rec), rec.qrc))
        return None

    def _k(self, consume, rec):
        "number of objects to take before close / drop / suspend"
        k = consume[1]
        if isinstance(k, tuple):
            size = sum(rec.e_trad[1].values()) if rec.e_trad[0] == 'ok' else 0
            k = max(0, size + k[1])
        if consume[0] == 'suspend':
            # a suspended enumeration is always a started one
            k = max(1, k)
        return k

    def _consume(self, rec, consume):
        """
        apply a consumption pattern to a created (or suspended) call and
        judge what can be judged
        """
        how = consume[0]
        self.classes.add('consume:' + how)
        if how == 'all':
            status = self._advance(rec, None)
            self._finished(rec, status)
            return
        k = self._k(consume, rec)
        status = 'more' if k == 0 else self._advance(rec, k)
        if status != 'more':
            self._finished(rec, status)
            return
        if rec.started:
            self._check_partial(rec)
        if how == 'suspend':
            rec.state = 'suspended'
            if rec not in self.suspended:
                self.suspended.append(rec)
            self.classes.add('suspended-enumeration')
            if len(self.suspended) >= 2:
                self.classes.add('interleaved-enumerations')
            return
        # close or drop
        self._end_early(rec, how)

    def _end_early(self, rec, how):
        if rec in self.suspended:
            self.suspended.remove(rec)
        before = len(self.table)
        del self.unraisable[:]
        self.active = rec
        exc = None
        try:
            if how == 'close':
                try:
                    rec.gen.close()
                except (pywbem.Error, ValueError, TypeError) as e:
                    exc = e
                rec.gen = None
            else:
                rec.gen = None
                gc.collect()
        finally:
            self.active = None
        rec.state = 'done'
        if rec.started and before > len(self.table):
            rec.ended_early = True
            self.nontrivial = True
            self.classes.add('ended-early:%s-closed-a-server-context' % how)
        if not rec.started:
            self.classes.add('%s-before-first-next' % how)
            if rec.requests:
                self.fail('request-sent-by-a-generator-that-was-never-'
                          'started', '%s: %r' % (rec.which, rec.requests))
        if exc is not None:
            self.fail('close()-raised:%s' % _excname(exc),
                      '%s: generator.close() after %d objects raised %r' %
                      (self._describe(rec), len(rec.got), exc))
        if self.unraisable:
            self.fail('drop:exception-in-generator-finalizer:%s' %
                      _excname(self.unraisable[0]),
                      '%s: dropping the generator after %d objects: %r' %
                      (self._describe(rec), len(rec.got),
                       self.unraisable[0]))
            del self.unraisable[:]
        self._check_table(how, rec)

    def _describe(self, rec):
        a = dict(rec.kwargs or {})
        return '%s(%s) [use_pull_operations=%r, server pull %s, family ' \
            'flag model %r, via %s]' % (
                rec.which, ', '.join('%s=%r' % kv for kv in sorted(
                    a.items(), key=lambda kv: kv[0])),
                self.init['use_pull'],
                ('enabled' if rec.enabled else 'disabled') +
                (', new enumeration context value with every response'
                 if self.rotate else ''),
                rec.flag_before, rec.via)

    # ---- judging ---------------------------------------------------------

    @staticmethod
    def _matches(pred, status, got):
        if pred.kind == 'err':
            if pred.also_code is not None and \
                    isinstance(status, CIMError) and \
                    status.status_code == pred.also_code:
                return True
            return isinstance(status, pred.exc) and (
                pred.code is None or status.status_code == pred.code)
        if pred.kind == 'filter':
            if isinstance(status, CIMError):
                return True
            return status == 'end' and not (got - pred.items)
        if isinstance(status, CIMError) and pred.also_code is not None \
                and status.status_code == pred.also_code:
            return True
        return status == 'end' and got == pred.items

    def _check_partial(self, rec):
        "objects delivered so far belong to the expected result"
        got = Counter(rec.got)
        for pred in [rec.pred] + ([rec.alt] if rec.alt else []):
            if pred.kind != 'err' and not (got - pred.items):
                return
        self._mismatch(rec, 'more', got, rec.pred)

    def _finished(self, rec, status):
        "the iterator ended (StopIteration or exception)"
        if rec in self.suspended:
            self.suspended.remove(rec)
        rec.state = 'done'
        rec.gen = None
        got = Counter(rec.got)
        npull = sum(1 for r in rec.requests if r.startswith(('Open',
                                                             'Pull')))
        if npull >= 2:
            self.nontrivial = True
            self.classes.add('call-with>=2-round-trips')
        if npull >= 3:
            self.classes.add('call-with>=3-round-trips')
        if rec.injected:
            self._judge_injected(rec, status, got)
        else:
            if rec.inject:
                self.classes.add('inject:not-reached')
            preds = [rec.pred] + ([rec.alt] if rec.alt else [])
            if any(self._matches(p, status, got) for p in preds):
                if rec.alt and not self._matches(rec.pred, status, got):
                    self.classes.add('documented:sticky-traditional-after-'
                                     'server-gained-pull')
                elif rec.pred.kind == 'filter' and status == 'end' and \
                        rec.fresh is not None and rec.fresh[0] == 'end' \
                        and rec.fresh[1] != got:
                    self.fail('freshness:filtered-result-differs-from-'
                              'fresh-connection:%s' % SHORT[rec.which],
                              '%s: %d vs %d objects' % (
                                  self._describe(rec), len(rec.got),
                                  sum(rec.fresh[1].values())))
            else:
                self._mismatch(rec, status, got, rec.pred)
        if rec.bad_moc and rec.requests:
            self.fail('invalid-MaxObjectCount:request-sent-before-rejection',
                      '%s: %r' % (self._describe(rec), rec.requests))
        if not isinstance(status, Exception):
            after = 'exhaust'
        elif isinstance(status, pywbem.Error) and \
                not isinstance(status, CIMError):
            # another root cause than a clean-up that does not run at all:
            # one that depends on the type of the exception
            after = 'non-CIM-error'
        else:
            after = 'error'
        self._check_table(after, rec)

    def _judge_injected(self, rec, status, got):
        inj = rec.inject
        self.classes.add('inject:%s-at-%s:%s' % (
            inj['what'], 'open' if inj['at'] == 0 else 'pull', inj['mode']))
        if inj['at'] > 0:
            self.nontrivial = True
            rec.ended_early = True
            # the situation the clean-up clause is about: did the server
            # still hold the enumeration when the request failed?
            self.classes.add('error-in-the-middle:%s:%s' % (
                'CIMError' if _is_cim(inj['what']) else 'non-CIMError',
                '%s:server-context-still-open' % SHORT[rec.which]
                if rec.open_at_error else 'server-context-already-closed'))
        pred = rec.pred
        if inj['at'] == 0 and inj['what'] in (FAILED, NOT_SUPPORTED) and \
                self.init['use_pull'] is None and rec.flag_before is None:
            # documented: treated as "pull not supported" -> fallback
            self.classes.add('inject:open-error-means-fallback')
            fb = self._predict(rec, 'trad', rec.enabled)
            if not self._matches(fb, status, got):
                self._mismatch(rec, status, got, fb,
                               prefix='fallback-after-error-at-open',
                               via='trad')
            return
        if inj['at'] == 0 and inj['what'] == NOT_SUPPORTED and \
                self.init['use_pull'] is None and rec.flag_before is True:
            # a family that knew pull as supported: raising the error
            # (today's behaviour) and falling back are both acceptable
            fb = self._predict(rec, 'trad', rec.enabled)
            if self._matches(fb, status, got):
                self.classes.add('inject:open-error-means-fallback')
                self.flags[rec.which] = False
                return
        ok = isinstance(status, _inj_exc_class(inj['what'])) and (
            not _is_cim(inj['what']) or status.status_code == inj['what'])
        extra = got - pred.items if pred.kind != 'err' else got
        if extra:
            self._mismatch(rec, 'more', got, pred)
        if ok:
            return
        what = _inj_name(inj['what'])
        if isinstance(status, CIMError) and \
                status.status_code == INVALID_CONTEXT and \
                inj['mode'] == 'drop' and inj['at'] > 0:
            self.fail('error-in-the-middle:server-error-replaced-by-'
                      'CloseEnumeration-error',
                      '%s: the server answered pull request #%d with %s and '
                      'closed the enumeration (ContinueOnError=%r); the '
                      'iterator raised %r instead' %
                      (self._describe(rec), inj['at'], what,
                       rec.kwargs.get('ContinueOnError'), status))
        else:
            self.fail('error-in-the-middle:%s-at-%s:%s:got-%s' % (
                what, 'open' if inj['at'] == 0 else 'pull', inj['mode'],
                _excname(status) if isinstance(status, Exception)
                else 'no-error'),
                '%s: injected %r; the iterator %s after %d objects' %
                (self._describe(rec), inj,
                 'raised %r' % status if isinstance(status, Exception)
                 else 'ended normally', len(rec.got)))

    def _mismatch(self, rec, status, got, pred, prefix=None, fresh=False,
                  via=None):
        "classify a deviation from the predicted outcome"
        kw = rec.kwargs
        op = SHORT[rec.which]
        if via is None:
            via = rec.ideal if fresh else rec.via
        where = 'fresh-connection' if fresh else 'long-lived'
        detail = '%s%s\n expected: %r\n got: %s after %d objects' % (
            'FRESH CONNECTION: ' if fresh else '', self._describe(rec), pred,
            'raised %r' % (status,) if isinstance(status, Exception)
            else status, sum(got.values()))
        if not fresh and rec.fresh is not None:
            detail += '\n same call on a brand-new connection: %s' % (
                'raised %r' % (rec.fresh[0],)
                if isinstance(rec.fresh[0], Exception)
                else '%s, %d objects' % (rec.fresh[0],
                                         sum(rec.fresh[1].values())))
        pre = (prefix + ':') if prefix else ''
        if isinstance(status, Exception):
            name = _excname(status)
            sticky = not fresh and isinstance(status, CIMError) and \
                status.status_code == NOT_SUPPORTED and \
                self.init['use_pull'] is None and not rec.enabled and \
                rec.flag_before is True
            if sticky and (pred.kind == 'err' or rec.fresh is None or
                           rec.fresh[0] != 'end'):
                # a fresh connection fails as well (with another error):
                # not covered by the statement's last clause
                self.classes.add('sticky-true:fresh-connection-fails-too')
                return
            if isinstance(status, ValueError) and \
                    kw.get('ContinueOnError') is False and \
                    'ContinueOnError' in str(status):
                sig = 'fallback:ContinueOnError=False-rejected'
            elif isinstance(status, ValueError) and \
                    kw.get('ReturnQueryResultClass') is False and \
                    'ReturnQueryResultClass' in str(status):
                sig = 'fallback:ReturnQueryResultClass=False-rejected'
            elif pred.kind == 'err':
                sig = '%swrong-error:%s:%s:expected-%s:got-%s' % (
                    pre, op, via, pred.why, name)
            elif sticky:
                sig = ('sticky-pull-flag:NOT_SUPPORTED-after-server-lost-pull-'
                       'though-fresh-connection-falls-back')
            elif rec.stale and isinstance(status, CIMError) and \
                    status.status_code == INVALID_CONTEXT:
                # the rotating-contexts server refused a request of this
                # call: it did not carry the context of the latest response
                sig = 'rotating-contexts:%s-with-stale-context:%s' % (
                    rec.stale[0], op)
                detail += '\n requests: %r, refused as stale: %r' % (
                    rec.requests, rec.stale)
            elif rec.which == QUERY and isinstance(status, CIMError) and \
                    status.status_code == INVALID_CONTEXT and via == 'pull':
                sig = ('query:mock-refuses-PullInstances-after-'
                       'OpenQueryInstances')
            else:
                sig = '%sunexpected-error:%s:%s:%s:%s' % (
                    pre, op, via, where, name)
            self.fail(sig, detail)
            return
        if pred.kind == 'err':
            self.fail('%smissing-error:%s:%s:%s' % (pre, pred.why, op, via),
                      detail)
            return
        exp = pred.items
        missing = exp - got
        extra = got - exp
        if pred.kind == 'filter' or status == 'more':
            missing = Counter()
        if not missing and not extra:
            return
        detail += '\n missing: %r\n extra: %r' % (
            list(missing.elements())[:2], list(extra.elements())[:2])
        gh = Counter(_no_host(c) for c in got.elements())
        eh = Counter(_no_host(c) for c in exp.elements())
        if status == 'more' or pred.kind == 'filter':
            same_without_host = not (gh - eh)
        else:
            same_without_host = gh == eh
        if same_without_host:
            nohost = any(_top_path(c)[2] is None for c in extra.elements())
            self.fail('path-host:%s:%s:%s' % (
                op, via, 'missing' if nohost else 'differs'), detail)
            return
        gn = Counter(_no_ns(c) for c in got.elements())
        en = Counter(_no_ns(c) for c in exp.elements())
        if (not (gn - en)) if (status == 'more' or pred.kind == 'filter') \
                else gn == en:
            nons = any(_top_path(c)[3] is None for c in extra.elements())
            self.fail('path-namespace:%s:%s:%s' % (
                op, via, 'missing' if nons else 'differs'), detail)
            return
        if missing and not extra:
            kind = 'objects-lost'
        elif extra and not missing:
            kind = 'objects-duplicated' if not (
                set(gn) - set(en)) else 'foreign-objects'
        else:
            kind = 'objects-differ'
        self.fail('%sresult:%s:%s:%s' % (pre, op, via, kind), detail)

    def _check_table(self, after, rec):
        """
        no enumeration context stays open on the server, except (at most)
        one per suspended enumeration
        """
        n = len(self.table)
        allowed = len(self.suspended) + self.leak_base
        if n > allowed:
            if 'CloseEnumeration' in rec.stale:
                after += ':CloseEnumeration-with-stale-context'
            self.fail('context-leak:after-%s' % after,
                      '%s: %d enumeration contexts on the server, %d '
                      'suspended enumerations; requests of the call: %r' %
                      (self._describe(rec), n, len(self.suspended),
                       rec.requests))
            self.leak_base += n - allowed

    # ---- steps -----------------------------------------------------------

    def apply(self, step):
        op = step['op']
        if op == 'call':
            self._call(step)
        elif op == 'resume':
            if self.suspended:
                rec = self.suspended[step['g'] % len(self.suspended)]
                self.classes.add('resume')
                self._consume(rec, step['consume'])
        elif op == 'toggle':
            self._toggle()
        return True

    def _toggle(self):
        for rec in list(self.suspended):
            self._end_early(rec, 'close')
        self.enabled = not self.enabled
        self.conn.disable_pull_operations = not self.enabled
        self.classes.add('toggle:server-pull-' +
                         ('on' if self.enabled else 'off'))
        if any(f is not None for f in self.flags.values()) and \
                self.init['use_pull'] is None:
            self.knowledge_changed = True

    def _call(self, step):
        rec = Rec(len(self.recs), step)
        self.recs.append(rec)
        up = self.init['use_pull']
        rec.enabled = self.enabled
        moc = step['args'].get('MaxObjectCount')
        rec.bad_moc = _is_bad_moc(moc)
        # expected objects
        probe_kw = self._kwargs(rec, self.paths)
        rec.kwargs = probe_kw
        rec.e_trad = self._traditional(rec, probe_kw, False)
        rec.e_pull = self._traditional(rec, probe_kw, True)
        size = sum(rec.e_trad[1].values()) if rec.e_trad[0] == 'ok' else 0
        rec.kwargs = self._kwargs(rec, self.paths, size)
        self.classes.add('op:' + SHORT[rec.which])
        self.classes.add('size:%s' % (size if size < 3 else
                                      '3-6' if size < 7 else '>=7'))
        mocv = rec.kwargs.get('MaxObjectCount', 1000)
        if rec.bad_moc:
            self.classes.add('MaxObjectCount:invalid')
        elif rec.e_trad[0] == 'ok':
            self.classes.add('MaxObjectCount:%s' % (
                '<size' if mocv < size else '=size' if mocv == size
                else '>size'))
        else:
            self.classes.add('traditional-raises-CIMError')
        if self._has_filter(rec.kwargs) and rec.which != QUERY:
            self.classes.add('arg:FilterQuery')
        if rec.kwargs.get('ContinueOnError') is not None:
            self.classes.add('arg:ContinueOnError=%s' %
                             rec.kwargs['ContinueOnError'])
        # which way does it go
        flag = self.flags[rec.which]
        rec.flag_before = flag
        rec.ideal = 'pull' if up is True or (up is None and self.enabled) \
            else 'trad'
        if flag is None:
            rec.via = 'pull' if self.enabled else 'trad'
        else:
            rec.via = 'pull' if flag else 'trad'
        rec.pred = self._predict(rec, rec.ideal, self.enabled)
        if rec.via != rec.ideal and rec.via == 'trad' and up is None:
            # documented: traditional "from then on"
            rec.alt = self._predict(rec, 'trad', self.enabled)
        self.classes.add('via:%s%s' % (rec.via, '' if rec.via == rec.ideal
                                       else ':fresh-would-use-' + rec.ideal))
        if self.knowledge_changed:
            self.nontrivial = True
            self.classes.add('call-after-pull-knowledge-changed')
        will_start = step['consume'][0] == 'all' or \
            self._k(step['consume'], rec) > 0 or rec.which == QUERY
        # injection only where an Open request is made and success expected
        inj = step.get('inject')
        if inj and will_start and not rec.bad_moc and rec.via == 'pull' and \
                self.enabled and rec.pred.kind != 'err' and \
                rec.ideal == 'pull' and \
                not (inj['mode'] == 'drop' and
                     rec.kwargs.get('ContinueOnError')):
            rec.inject = dict(inj)
            if inj['at'] == 0 and up is None and (
                    (flag is None and inj['what'] in (FAILED,
                                                      NOT_SUPPORTED)) or
                    (flag is True and inj['what'] == NOT_SUPPORTED)):
                # the call goes on with the traditional operation: objects
                # delivered before a close/drop/suspend are those
                rec.alt = self._predict(rec, 'trad', self.enabled)
        # model of what the connection learns
        if up is None and flag is None and will_start and not rec.bad_moc:
            if rec.inject and rec.inject['at'] == 0:
                learned = False if rec.inject['what'] in (
                    FAILED, NOT_SUPPORTED) else None
            elif not self.enabled:
                learned = False
            else:
                learned = self._open_decides(rec)
            if learned is not None:
                self.flags[rec.which] = learned
                self.knowledge_changed = True
                self.classes.add('family-learned-pull-%s' %
                                 ('supported' if learned else 'unsupported'))
        # the same call on a brand-new connection
        if not rec.inject:
            self._fresh(rec, size)
        # the call on the long-lived connection
        exc = self._create(rec, self.conn, rec.kwargs)
        if exc is not None:
            self._finished(rec, exc)
        else:
            self._consume(rec, step['consume'])

    def _fresh(self, rec, size):
        conn = new_client(self.conn, self.init['use_pull'], self.query)
        before = len(self.table)
        frec = Rec(-1, rec.step)
        frec.kwargs = self._kwargs(frec, self.paths, size)
        exc = self._create(frec, conn, frec.kwargs)
        if exc is not None:
            status = exc
        else:
            status = self._advance(frec, None)
        got = Counter(frec.got)
        rec.fresh = (status, got)
        pred = rec.pred
        left = len(self.table) - before
        if left > 0:
            self.fail('context-leak:fresh-connection-after-%s' % (
                'error' if isinstance(status, Exception) else 'exhaust'),
                '%s: %d contexts left' % (self._describe(rec), left))
            self.leak_base += left
        if not self._matches(pred, status, got):
            self._mismatch(rec, status, got, pred, fresh=True)

    def finish(self):
        for rec in list(self.suspended):
            self.classes.add('finish:close-suspended')
            self._end_early(rec, 'close')
        left = len(self.table) - self.leak_base
        if left > 0:
            self.fail('context-leak:contexts-left-at-end',
                      '%d contexts left on the server' % left)
        ncalls = len(self.recs)
        self.classes.add('calls:%s' % (ncalls if ncalls < 4 else '>=4'))
        self.classes.add('history')
        self.ctx.case(nontrivial=self.nontrivial,
                      classes=sorted(self.classes))


class QueryMachine(Machine):
    QUERY = True


def _is_bad_moc(v):
    if v == NO_ARG:
        return False
    if isinstance(v, tuple):
        return v == ('u32', 0)
    if isinstance(v, bool) or not isinstance(v, int):
        return True
    return v <= 0


def _excname(exc):
    if isinstance(exc, CIMError):
        return 'CIMError-%d' % exc.status_code
    return type(exc).__name__


# ---------------------------------------------------------------------------
# exhaustive single-call matrix

def _matrix_cases(thorough=False):
    patterns = [('all',), ('close', 1), ('drop', 1)]
    if thorough:
        patterns += [('close', 0), ('close', ('size', -1)),
                     ('drop', ('size', 0))]
    for which in ITER_OPS:
        for up in (None, True, False):
            for disabled in (False, True):
                for size in range(0, 13 if thorough else 7):
                    for moc in range(1, size + 2):
                        for consume in patterns:
                            yield (which, up, disabled, size, moc, consume)
                            if up is not False and not disabled and \
                                    moc < size:
                                # at least one Pull request is made: also
                                # against the rotating-contexts server
                                yield (which, up, disabled, size, moc,
                                       consume, 'rotate')


def _matrix_example(case):
    which, up, disabled, size, moc, consume = case[:6]
    init = {'nbase': 0, 'nmid': 0, 'nleaf': 0, 'nother': 0, 'nx': 0,
            'hub': 0, 'rev': 0, 'use_pull': up, 'disabled': disabled,
            'rotate': len(case) > 6, 'query': False}
    a = {}
    if which in ENUM_OPS:
        init['nbase'] = size
        a['ClassName'] = ('C15_Base', 'none')
    else:
        # hub instance: Base[0] is linked to `size` Other instances
        init['nbase'] = 1
        init['nother'] = size
        init['hub'] = size
        a['InstanceName'] = ('src', 0, 'plain')
    a['MaxObjectCount'] = moc
    step = {'op': 'call', 'which': which, 'args': a, 'consume': consume,
            'inject': None}
    return (init, [step])


def run_history(ctx, example):
    init, steps = example
    m = Machine(ctx)
    m.setup(init)
    try:
        for step in steps:
            m.apply(step)
        m.finish()
    finally:
        m.teardown()


def matrix(ctx, shard, nshards):
    for i, case in enumerate(_matrix_cases(ctx.tier == 'thorough')):
        if i % nshards != shard:
            continue
        ex = _matrix_example(case)
        ctx.current = ex
        run_history(ctx, ex)


def matrix_replay(ctx, example):
    ctx.current = example
    run_history(ctx, example)


# ---------------------------------------------------------------------------
# exhaustive 'error in the middle' matrix

_ERR_WHAT = [FAILED, pywbem.CIM_ERR_ACCESS_DENIED] + NON_CIM_KINDS


def _errmatrix_cases(thorough=False):
    for which in ITER_OPS + [QUERY]:
        for up in (None, True):
            for what in _ERR_WHAT:
                for size in ((4, 7) if thorough else (4,)):
                    for rotate in (False, True):
                        yield (which, up, what, size, rotate)


def _errmatrix_example(case, thorough=False):
    which, up, what, size, rotate = case
    init = {'nbase': 0, 'nmid': 0, 'nleaf': 0, 'nother': 0, 'nx': 0,
            'hub': 0, 'rev': 0, 'use_pull': up, 'disabled': False,
            'rotate': rotate, 'query': which == QUERY}
    a = {}
    if which == QUERY:
        init['nbase'] = size
        a.update(FilterQueryLanguage='DMTF:FQL',
                 FilterQuery='SELECT * FROM C15_Base', namespace=None,
                 ReturnQueryResultClass=None)
    elif which in ENUM_OPS:
        init['nbase'] = size
        a['ClassName'] = ('C15_Base', 'none')
    else:
        init['nbase'] = 1
        init['nother'] = size
        init['hub'] = size
        a['InstanceName'] = ('src', 0, 'plain')
    a['MaxObjectCount'] = 1
    # the first call meets an undetermined family (use_pull None), the later
    # ones a decided one; the error at the Open request comes last (an
    # undetermined family would take CIM_ERR_FAILED there as 'no pull')
    ats = (1, 2, size - 1, 0) if thorough else (1, 2, 0)
    steps = [{'op': 'call', 'which': which, 'args': dict(a),
              'consume': ('all',),
              'inject': {'at': at, 'what': what, 'mode': mode}}
             for at in ats for mode in ('keep', 'drop')]
    # and one undisturbed call behind the failed ones (3 or more Pulls)
    steps.append({'op': 'call', 'which': which, 'args': dict(a),
                  'consume': ('all',), 'inject': None})
    return (init, steps)


def errmatrix(ctx, shard, nshards):
    thorough = ctx.tier == 'thorough'
    for i, case in enumerate(_errmatrix_cases(thorough)):
        if i % nshards != shard:
            continue
        ex = _errmatrix_example(case, thorough)
        ctx.current = ex
        run_history(ctx, ex)


SUBCHECKS = [
    Sub('history', machine=Machine, quick=(16, 240), thorough=(16, 4800),
        steps=(8, 14), case_timeout=120, budget=(600, 3000)),
    Sub('query', machine=QueryMachine, quick=(8, 70), thorough=(16, 1500),
        steps=(8, 14), case_timeout=120, budget=(600, 3000)),
    Sub('matrix', enumerate=matrix, quick=(8, 0), thorough=(8, 0)),
    Sub('errmatrix', enumerate=errmatrix, quick=(4, 0), thorough=(4, 0)),
]
SUBCHECKS[2].replay = matrix_replay
SUBCHECKS[3].replay = matrix_replay
