"""
C03 - Everything pywbem puts on the wire is well-formed, DTD-valid CIM-XML.
DESIGN.md 4.3.
"""

import re
import urllib.parse

from hypothesis import strategies as st
from lxml import etree

import pywbem
from pywbem import CIMInstanceName, CIMClassName, _cim_xml
from pywbem._tupleparse import TupleParser
from pywbem._tupletree import xml_to_tupletree_sax

from .runner import Sub
from . import strategies as S
from . import ops as O
from .xmlserver import (connect, Resp, request_method_name, error_response,
                        validate_cimxml)
from .normalize import canon, Opts

PROPERTY = 'C03'
RULE = (
    "requests: every public operation method of WBEMConnection (41 incl. the "
    "7 Iter...) x generated valid arguments (object names as str/"
    "CIMClassName/CIMInstanceName with and without namespace/host, instances "
    "and classes with embedded objects, property lists as None/str/list/"
    "tuple, tri-state booleans, query strings, MaxObjectCount/"
    "OperationTimeout, InvokeMethod parameters of every type as tuples/"
    "CIMParameter/kwargs) with strings from the legal and from the "
    "XML-illegal profile (C0 controls, U+FFFE/U+FFFF, lone surrogates); the "
    "scripted server answers with a CIM error (code 1 or 7, so that Iter... "
    "falls back).  Every captured HTTP body must be UTF-8, well-formed for "
    "expat and libxml2, DTD-valid (DSP0203 2.3.1), and CIMMethod/CIMObject "
    "must name the method and target of the body.  objects: tocimxml()/"
    "tocimxmlstr(indent) of every object kind of C01, same validity oracle "
    "on the element as fragment root.  A call that raises before anything is "
    "sent is the allowed 'fails locally' outcome (counted per exception "
    "type).  Non-trivial = the request/object carries a CIM object (more than "
    "scalars).  Distinct = distinct recipe.")
ASSUMPTIONS = [
    "DTD oracle: lxml/libxml2 with tests/dtd/DSP0203_2.3.1.dtd (the version "
    "the repository's own tests validate against); single elements validate "
    "as fragment roots",
    "a header value that http.client could not encode (non latin-1) or that "
    "requests rejects is a local failure, not a wire document",
    "CIMObject is compared with the body after percent-decoding either side",
]
SENSITIVITY = [
    "KEYVALUE VALUETYPE='integer' for numeric keys -> request:dtd-invalid:Value_integer_for_attribute_VALUETYPE...",
    'CIMObject header built from conn.default_namespace instead of the target namespace -> header:CIMObject-namespace-differs-from-body',
    '_iparam_instancename keeping the namespace (emits LOCALINSTANCEPATH inside IPARAMVALUE) -> request:dtd-invalid:Element_IPARAMVALUE_content...',
    '(before the fix) ExportIndication with VALUE.NAMEDINSTANCE -> request:dtd-invalid:Element_EXPPARAMVALUE...',
]


# ---------------------------------------------------------------------------
# requests

_ODD_NS = st.sampled_from(['', '/', '//', 'root/', '/root/cimv2/'])


def _odd_namespaces(draw, recipe):
    """
    In one of eight recipes the namespace of path objects is replaced by an
    unusual but accepted spelling (empty, only slashes, stray slashes).
    """
    if draw(st.integers(0, 7)) != 0:
        return
    for x in S.walk(recipe):
        if isinstance(x, dict) and x.get('k') in ('ipath', 'cpath') and \
                x.get('namespace') is not None:
            x['namespace'] = draw(_ODD_NS)


_ODD_NAME_PARTS = ['\x01', '\x0b', '\x1f', '\ufffe', '\uffff', '\ud800',
                   '\udfff', ' ', '\t', '\n', '\xe4', '\u20ac', '&', '<',
                   '>', '"', "'", '\x7f', '\x85', ']]>', '&#1;', '\x00']


def _odd_names(draw, recipe):
    """
    In one of six recipes one to three of the CIM names (class names of
    instances, classes and paths, names of properties, methods, parameters,
    qualifiers and keys, superclass/reference class/class origin) get
    characters that CIM names do not have: control characters, U+FFFE/U+FFFF,
    lone surrogates, blanks, XML markup characters, non-ASCII letters.
    pywbem does not validate names, so the call is accepted: the document
    must still be well-formed and valid, or the call must fail locally.
    Returns the number of names changed.
    """
    if draw(st.integers(0, 5)) != 0:
        return 0
    slots = []
    for x in S.walk(recipe):
        if not isinstance(x, dict):
            continue
        for field in ('classname', 'name', 'superclass', 'reference_class',
                      'class_origin'):
            if isinstance(x.get(field), str) and x[field]:
                slots.append((x, field))
        if x.get('k') == 'ipath' and x.get('keys'):
            slots.append((x, 'keys'))
    if not slots:
        return 0
    n = 0
    for _ in range(1 + draw(st.integers(0, 2))):
        x, field = slots[draw(st.integers(0, len(slots) - 1))]
        part = draw(st.sampled_from(_ODD_NAME_PARTS))
        if field == 'keys':
            i = draw(st.integers(0, len(x['keys']) - 1))
            kn, kt, kv = x['keys'][i]
            x['keys'] = list(x['keys'])
            x['keys'][i] = (kn[:1] + part + kn[1:], kt, kv)
        else:
            v = x[field]
            pos = draw(st.integers(0, len(v)))
            x[field] = v[:pos] + part + v[pos:]
        n += 1
    return n


def _class_refs(draw, recipe, ns=None):
    """
    In one of five recipes the reference values (property, parameter and
    method parameter values of type reference) become class paths, all in
    one namespace (two class paths of one namespace in one document).
    """
    if draw(st.integers(0, 4)) != 0:
        return 0
    ns = ns or draw(st.sampled_from(['root/cimv2', 'a/b', None]))
    host = draw(st.sampled_from([None, None, 'h'])) if ns else None
    n = [0]

    def cpath():
        n[0] += 1
        return {'k': 'cpath', 'classname': 'CR_%d' % (n[0] % 3),
                'namespace': ns, 'host': host}

    def conv(v):
        if isinstance(v, list):
            return [None if e is None else cpath() for e in v]
        return None if v is None else cpath()
    for x in S.walk(recipe):
        if isinstance(x, dict) and x.get('type') == 'reference' and \
                'value' in x and x.get('k') in ('prop', 'param'):
            x['value'] = conv(x['value'])
    return n[0]


def requests_strategy():
    strings = st.one_of(S.cim_string(), S.cim_string(), S.cim_string_illegal())

    @st.composite
    def strat(draw):
        op = O.ALL_OPS[draw(st.integers(0, len(O.ALL_OPS) - 1))]
        call = O.g_call(draw, op, strings=strings)
        _odd_namespaces(draw, call)
        _odd_names(draw, call)
        if op == 'InvokeMethod' and draw(st.integers(0, 2)) == 0:
            # class-level target and class path parameters in one namespace
            ns = draw(st.sampled_from(['root/cimv2', 'a/b']))
            call['args']['ObjectName'] = {
                'k': 'cpath', 'classname': 'CR_T', 'namespace': ns,
                'host': None}
            call['args']['Params'] = list(call['args']['Params']) + [
                ('cimparam' if draw(st.booleans()) else 'tuple', 'P_cref',
                 ('reference', False,
                  {'k': 'cpath', 'classname': 'CR_P', 'namespace': ns,
                   'host': None}, None))]
        else:
            _class_refs(draw, call)
        dns = draw(st.sampled_from([None, 'root/cimv2', 'interop', 'a/b']))
        code = draw(st.sampled_from([1, 7]))
        pull = draw(st.sampled_from([None, None, True, False]))
        return (call, dns, code, pull)
    return strat()


def _body_target(root):
    """
    (kind, value) of the target named in the body:
    ('ns', 'a/b') for IMETHODCALL, ('path', CIMClassName|CIMInstanceName) for
    METHODCALL, (None, None) for EXPMETHODCALL
    """
    im = root.find('.//IMETHODCALL')
    if im is not None:
        lnp = im.find('LOCALNAMESPACEPATH')
        return 'ns', '/'.join(n.get('NAME') for n in lnp.findall('NAMESPACE'))
    mc = root.find('.//METHODCALL')
    if mc is not None:
        for tag in ('LOCALCLASSPATH', 'LOCALINSTANCEPATH'):
            el = mc.find(tag)
            if el is not None:
                xml = etree.tostring(el, encoding='unicode')
                tt = xml_to_tupletree_sax(xml, 'C03')
                return 'path', TupleParser().parse_any(tt)
    return None, None


def _check_headers(ctx, req, root):
    tag, name = request_method_name(req.body)
    h = {k.lower(): v for k, v in req.headers.items()}
    for k, v in h.items():
        if isinstance(v, bytes):
            v = v.decode('latin-1')
        if '\r' in v or '\n' in v:
            ctx.fail('header:raw-CR-LF-in-' + k, repr(v))
            return
    if tag == 'EXPMETHODCALL':
        if h.get('cimexport') != 'MethodRequest' or \
                h.get('cimexportmethod') != name:
            ctx.fail('header:export-headers', repr(h))
        return
    if h.get('cimoperation') != 'MethodCall':
        ctx.fail('header:CIMOperation', repr(h))
        return
    if h.get('cimmethod') != name and \
            urllib.parse.unquote(h.get('cimmethod', '')) != name:
        ctx.fail('header:CIMMethod-differs-from-body',
                 '%r vs %r' % (h.get('cimmethod'), name))
        return
    kind, target = _body_target(root)
    hv = h.get('cimobject')
    if hv is None:
        ctx.fail('header:CIMObject-missing', repr(h))
        return
    try:
        hv.encode('latin-1')
    except UnicodeEncodeError:
        ctx.event('header-not-latin1(local failure on a real socket)')
        return
    cands = [hv, urllib.parse.unquote(hv)]
    if kind == 'ns':
        if target not in cands:
            ctx.fail('header:CIMObject-namespace-differs-from-body',
                     'header %r body %r' % (hv, target))
    elif kind == 'path':
        ok = False
        why = ''
        for c in cands:
            try:
                if isinstance(target, CIMInstanceName):
                    p = CIMInstanceName.from_wbem_uri('/' + c)
                else:
                    p = CIMClassName.from_wbem_uri('/' + c)
            except ValueError as exc:
                why = 'unparsable: %s' % exc
                continue
            o = Opts(lower=True, untyped_keys=True, sort=True)
            if canon(p, o) == canon(target, o):
                ok = True
                break
            why = '%r != %r' % (p, target)
        if not ok:
            ctx.event('CIMObject-path-not-comparable')
            # only the namespace+classname part is asserted when the key
            # part cannot be parsed back (documented limits of untyped URIs)
            pre = '%s:%s' % (target.namespace, target.classname)
            if not any(c.lower().startswith(pre.lower()) for c in cands):
                def wsnorm(t):
                    return re.sub('[\t\n\r]', ' ', t).lower()
                if any(wsnorm(c).startswith(wsnorm(pre)) for c in cands):
                    # TAB/LF/CR inside a name: written literally into the
                    # NAME attribute, which an XML parser normalises to a
                    # blank (attribute-value normalisation), while the
                    # header carries the original character
                    ctx.fail('header:name-with-TAB-LF-CR-reads-back-with-'
                             'blank-from-body-attribute',
                             'header %r body %r' % (hv, target))
                else:
                    ctx.fail('header:CIMObject-path-differs-from-body',
                             'header %r body %r (%s)' % (hv, target, why))


def requests_oracle(ctx, ex):
    call, dns, code, pull = ex

    def responder(req):
        tag, name = request_method_name(req.body)
        if tag is None:
            return Resp(b'', status=400, reason='Bad Request',
                        headers={'CIMError': 'request-not-well-formed'})
        return Resp(error_response(tag, name, code))
    kw = {'use_pull_operations': pull}
    if dns is not None:
        kw['default_namespace'] = dns
    conn, adapter = connect(responder, **kw)
    outcome = 'returned'
    try:
        O.invoke(conn, call)
    except pywbem.Error as exc:
        outcome = type(exc).__name__
    except Exception as exc:  # pylint: disable=broad-except
        # any exception type is allowed as a *local* failure
        outcome = type(exc).__name__
    finally:
        conn.close()
    if not adapter.requests:
        ctx.case(nontrivial=False,
                 classes=('op:' + call['op'], 'local-failure:' + outcome))
        return
    for req in adapter.requests:
        bad = validate_cimxml(req.body)
        if bad is not None:
            ctx.fail('request:' + bad[0], '%s: %s' % (call['op'], bad[1]))
            continue
        root = etree.fromstring(req.body)
        _check_headers(ctx, req, root)
    ctx.case(nontrivial=O.call_has_objects(call),
             classes=('op:' + call['op'], 'sent:%d' % len(adapter.requests),
                      'outcome:' + outcome))


# ---------------------------------------------------------------------------
# objects

KINDS = ['ipath', 'cpath', 'inst', 'class', 'prop', 'meth', 'param_decl',
         'param_value', 'qual', 'qualdecl']


def objects_strategy():
    strings = st.one_of(S.cim_string(), S.cim_string(), S.cim_string_illegal())

    @st.composite
    def strat(draw):
        kind = KINDS[draw(st.integers(0, len(KINDS) - 1))]
        if kind == 'ipath':
            r = S._g_ipath(draw, depth=2, strings=strings)
        elif kind == 'cpath':
            r = S._g_cpath(draw)
        elif kind == 'inst':
            r = S._g_instance(draw, depth=2, strings=strings)
        elif kind == 'class':
            r = S._g_class(draw, depth=1, strings=strings)
        elif kind == 'prop':
            r = S._g_property(draw, depth=2, strings=strings)
        elif kind == 'meth':
            r = S._g_method(draw, strings=strings)
        elif kind == 'param_decl':
            r = S._g_parameter(draw, strings=strings)
        elif kind == 'param_value':
            r = S._g_parameter(draw, strings=strings, with_value=True,
                               quals=False)
        elif kind == 'qual':
            r = S._g_qualifier(draw, strings=strings)
        else:
            r = S._g_qualdecl(draw, strings=strings)
        _odd_namespaces(draw, r)
        _odd_names(draw, r)
        _class_refs(draw, r)
        how = draw(st.sampled_from(['toxml', 'str', 'indent2', 'indent0',
                                    'cdata', 'twice', 'twice']))
        if kind in ('inst', 'class', 'prop', 'param_value') and \
                draw(st.integers(0, 5)) == 0:
            # after the object is built, a value of another shape is assigned
            # through the documented value setter of one of its properties /
            # of the parameter (which index, which shape)
            return (kind, r, how, (draw(st.integers(0, 5)),
                                   draw(st.sampled_from(MISMATCH_SHAPES))))
        return (kind, r, how)
    return strat()


MISMATCH_SHAPES = ['list-on-scalar', 'scalar-on-array', 'nested-list',
                   'path-on-nonreference', 'instance-on-plain-string',
                   'class-on-number', 'tuple', 'dict', 'bytes']


def _assign_mismatch(obj, index, shape):
    """
    Assign a value that does not fit the kind of the element through its
    value setter; returns a label, or None if there is no such element or
    the setter refused (then the object is unchanged).
    """
    if isinstance(obj, (pywbem.CIMProperty, pywbem.CIMParameter)):
        targets = [obj]
    else:
        targets = list(getattr(obj, 'properties', {}).values())
    if not targets:
        return None
    t = targets[index % len(targets)]
    value = {
        'list-on-scalar': ['a', 'b'],
        'scalar-on-array': 'a',
        'nested-list': [['a'], ['b']],
        'path-on-nonreference': CIMInstanceName('C', {'k': 'v'}),
        'instance-on-plain-string': pywbem.CIMInstance('C'),
        'class-on-number': pywbem.CIMClass('C'),
        'tuple': ('a', 'b'),
        'dict': {'a': 'b'},
        'bytes': b'ab',
    }[shape]
    if shape == 'list-on-scalar' and t.is_array:
        return None
    if shape == 'scalar-on-array' and not t.is_array:
        return None
    try:
        t.value = value
    except (TypeError, ValueError):
        return 'refused-by-setter'
    return 'assigned'


def objects_oracle(ctx, ex):
    kind, recipe, how = ex[:3]
    obj = S.build(recipe)
    mismatch = None
    if len(ex) > 3:
        mismatch = _assign_mismatch(obj, ex[3][0], ex[3][1])
        if how == 'twice':
            how = 'toxml'       # the second tree would be built unmodified
    kw = {'as_value': True} if kind == 'param_value' else {}
    old = _cim_xml._CDATA_ESCAPING
    try:
        try:
            if how == 'toxml':
                xml = obj.tocimxml(**kw).toxml()
            elif how == 'twice':
                # two element trees of equal objects alive at the same time:
                # building the second one must not change the first one
                # (nodes shared through a cache can have only one parent)
                el1 = obj.tocimxml(**kw)
                xml = el1.toxml()
                el2 = S.build(recipe).tocimxml(**kw)
                if el1.toxml() != xml:
                    ctx.fail('object:element-tree-changed-by-a-later-'
                             'tocimxml', '%s: before %s\nafter %s' %
                             (kind, xml[:600], el1.toxml()[:600]))
                elif el2.toxml() != xml:
                    ctx.fail('object:second-tocimxml-differs-from-the-first',
                             '%s: first %s\nsecond %s' %
                             (kind, xml[:600], el2.toxml()[:600]))
            elif how == 'cdata':
                _cim_xml._CDATA_ESCAPING = True
                xml = obj.tocimxml(**kw).toxml()
            elif how == 'str':
                xml = obj.tocimxmlstr(**kw)
            elif how == 'indent2':
                xml = obj.tocimxmlstr(indent=2, **kw)
            else:
                xml = obj.tocimxmlstr(indent='', **kw)
        finally:
            _cim_xml._CDATA_ESCAPING = old
    except Exception as exc:  # pylint: disable=broad-except
        # "fails locally with an exception": the statement names no type.
        # For objects as built, only the types pywbem documents for
        # unrepresentable content are taken as that; after a value of
        # another shape was forced into an element, any exception is a
        # local failure.
        if not isinstance(exc, (ValueError, TypeError, UnicodeError,
                                AssertionError)) and mismatch != 'assigned':
            raise
        ctx.case(nontrivial=False,
                 classes=('kind:' + kind, 'local-failure:' +
                          type(exc).__name__))
        return
    try:
        body = xml.encode('utf-8')
    except UnicodeEncodeError:
        ctx.fail('object:not-encodable-as-utf8',
                 '%s.%s produced text with lone surrogates' % (kind, how))
        ctx.case(nontrivial=True, classes=('kind:' + kind,))
        return
    bad = validate_cimxml(body)
    if bad is not None:
        ctx.fail('object:' + bad[0], '%s %s: %s' % (kind, how, bad[1]))
    ctx.case(nontrivial=True, classes=('kind:' + kind, 'how:' + how) + (
        ('value-of-another-shape:%s:%s' % (ex[3][1], mismatch),)
        if mismatch else ()))


SUBCHECKS = [
    Sub('requests', strategy=requests_strategy, oracle=requests_oracle,
        quick=(16, 500), thorough=(16, 20000)),
    Sub('objects', strategy=objects_strategy, oracle=objects_oracle,
        quick=(8, 800), thorough=(16, 20000)),
]

# "...and for every response the listener emits": the listener_responses
# sub-check of C17 (real WBEMListener over loopback, every 200 body through
# validate_cimxml plus HTTP framing) is run under C03 as well.
try:
    from . import c17 as _c17
    SUBCHECKS.append(next(s for s in _c17.SUBCHECKS
                          if s.name == 'listener_responses'))
except ImportError:     # pragma: no cover
    pass
