"""
Server-side response construction for C02/C19 (and the success encoders the
C04 facade reuses): valid CIM-XML responses per operation (DESIGN.md
Appendix A), defect injection on the element tree, byte-level damage, and the
documented result type per operation.
"""

import copy
import collections

from hypothesis import strategies as st
from lxml import etree

import pywbem
from pywbem import (CIMInstance, CIMInstanceName, CIMClass, CIMClassName,
                    CIMQualifierDeclaration, _cim_xml)
from pywbem._cim_types import atomic_to_cim_xml
from pywbem._nocasedict import NocaseDict

from . import strategies as S

# response kind per request method name
KIND = {
    'EnumerateInstances': 'insts_named', 'EnumerateInstanceNames': 'inames',
    'GetInstance': 'inst', 'CreateInstance': 'iname',
    'ModifyInstance': 'void', 'DeleteInstance': 'void',
    'Associators': 'objs_withpath', 'References': 'objs_withpath',
    'AssociatorNames': 'objnames', 'ReferenceNames': 'objnames',
    'ExecQuery': 'query',
    'EnumerateClasses': 'classes', 'EnumerateClassNames': 'classnames',
    'GetClass': 'class', 'ModifyClass': 'void', 'CreateClass': 'void',
    'DeleteClass': 'void',
    'EnumerateQualifiers': 'qualdecls', 'GetQualifier': 'qualdecl',
    'SetQualifier': 'void', 'DeleteQualifier': 'void',
    'OpenEnumerateInstances': 'open_insts',
    'OpenAssociatorInstances': 'open_insts',
    'OpenReferenceInstances': 'open_insts',
    'PullInstancesWithPath': 'open_insts',
    'OpenEnumerateInstancePaths': 'open_paths',
    'OpenAssociatorInstancePaths': 'open_paths',
    'OpenReferenceInstancePaths': 'open_paths',
    'PullInstancePaths': 'open_paths',
    'OpenQueryInstances': 'open_query', 'PullInstances': 'open_query',
    'CloseEnumeration': 'void',
    'ExportIndication': 'export',
}


def g_pool(draw, strings=None, small=True):
    """
    Pool of server-side objects a response is built from (plain recipes).
    """
    sizes = draw(st.sampled_from([(1, 0, 0, 0), (2, 0, 0, 0), (0, 1, 0, 0),
                                  (0, 0, 1, 0), (0, 0, 0, 2), (1, 1, 1, 1),
                                  (0, 0, 0, 0), (3, 0, 2, 1)]))
    insts = [S._g_instance(draw, depth=draw(st.sampled_from([0, 0, 1])),
                           with_path=True,
                           path_kinds=('host',), strings=strings)
             for _ in range(sizes[0])]
    classes = [S._g_class(draw, depth=0, small=True, strings=strings)
               for _ in range(sizes[1])]
    qdecls = [S._g_qualdecl(draw, strings=strings) for _ in range(sizes[2])]
    tv = S._g_typed_value(draw, S.ALL_TYPES, strings=strings)
    outs = [('O%d' % i, S._g_typed_value(draw, S.ALL_TYPES, strings=strings))
            for i in range(sizes[3])]
    return {'insts': insts, 'classes': classes, 'qdecls': qdecls,
            'retval': tv, 'outs': outs, 'eos': draw(S._B),
            'ctx': draw(st.sampled_from(['ctx-1', '42', 'a<b', 'é']))}


# ---------------------------------------------------------------------------
# valid responses

def _wrap(rsp_el, export=False):
    outer = _cim_xml.SIMPLEEXPRSP(rsp_el) if export else \
        _cim_xml.SIMPLERSP(rsp_el)
    return _cim_xml.CIM(_cim_xml.MESSAGE(outer, '1001', '1.0'), '2.0', '2.0')


def _full_path(path, host='srv:5988', ns='root/cimv2'):
    p = path.copy()
    if p.namespace is None:
        p.namespace = ns
    if p.host is None:
        p.host = host
    return p


def _local_path(path):
    p = path.copy()
    p.host = None
    p.namespace = None
    return p


def _inst_el(inst):
    return inst.tocimxml(ignore_path=True)


def ireturn_children(kind, pool, class_level=False):
    "list of _cim_xml elements for IRETURNVALUE (None = no IRETURNVALUE)"
    insts = [S.build(r) for r in pool['insts']]
    classes = [S.build(r) for r in pool['classes']]
    qdecls = [S.build(r) for r in pool['qdecls']]
    if kind == 'void' or kind == 'export':
        return None
    if kind == 'insts_named':
        return [_cim_xml.VALUE_NAMEDINSTANCE(
            _local_path(i.path).tocimxml(), _inst_el(i)) for i in insts]
    if kind == 'inames':
        return [_local_path(i.path).tocimxml() for i in insts]
    if kind == 'inst':
        i = insts[0] if insts else CIMInstance('C')
        return [_inst_el(i)]
    if kind == 'iname':
        p = insts[0].path if insts else CIMInstanceName('C', {'k': 'v'})
        return [_local_path(p).tocimxml()]
    if kind == 'objs_withpath':
        if class_level:
            return [_cim_xml.VALUE_OBJECTWITHPATH(
                CIMClassName(c.classname, host='srv',
                             namespace='root/cimv2').tocimxml(),
                c.tocimxml()) for c in classes]
        return [_cim_xml.VALUE_OBJECTWITHPATH(
            _full_path(i.path).tocimxml(), _inst_el(i)) for i in insts]
    if kind == 'objnames':
        if class_level:
            return [_cim_xml.OBJECTPATH(
                CIMClassName(c.classname, host='srv',
                             namespace='root/cimv2').tocimxml())
                    for c in classes]
        return [_cim_xml.OBJECTPATH(_full_path(i.path).tocimxml())
                for i in insts]
    if kind == 'query':
        return [_cim_xml.VALUE_OBJECT(_inst_el(i)) for i in insts]
    if kind == 'classes':
        return [c.tocimxml() for c in classes]
    if kind == 'classnames':
        return [_cim_xml.CLASSNAME(c.classname) for c in classes]
    if kind == 'class':
        c = classes[0] if classes else CIMClass('C')
        return [c.tocimxml()]
    if kind == 'qualdecls':
        return [q.tocimxml() for q in qdecls]
    if kind == 'qualdecl':
        q = qdecls[0] if qdecls else CIMQualifierDeclaration('Q', 'string')
        return [q.tocimxml()]
    if kind == 'open_insts':
        return [_cim_xml.VALUE_INSTANCEWITHPATH(
            _full_path(i.path).tocimxml(), _inst_el(i)) for i in insts]
    if kind == 'open_paths':
        return [_full_path(i.path).tocimxml() for i in insts]
    if kind == 'open_query':
        return [_inst_el(i) for i in insts]
    raise ValueError(kind)


def _value_el(t, v):
    "VALUE / VALUE.ARRAY / VALUE.REFERENCE / VALUE.REFARRAY for typed v"
    def one(x):
        if x is None:
            return _cim_xml.VALUE_NULL()
        if t == 'reference':
            return _cim_xml.VALUE_REFERENCE(x.tocimxml())
        if isinstance(x, (CIMInstance, CIMClass)):
            return _cim_xml.VALUE(x.tocimxml().toxml())
        return _cim_xml.VALUE(atomic_to_cim_xml(x))
    if v is None:
        return None
    if isinstance(v, list):
        if t == 'reference':
            return _cim_xml.VALUE_REFARRAY([one(x) for x in v])
        return _cim_xml.VALUE_ARRAY([one(x) for x in v])
    return one(v)


def valid_response(tag, name, pool, class_level=False, force_eos=False,
                   payload_of=None, mix=False, own_class_level=None):
    """
    Well-formed, DTD-valid, semantically right response (text) for request
    element `tag` (IMETHODCALL/METHODCALL/EXPMETHODCALL) and method `name`.
    With payload_of (an operation name) the IRETURNVALUE content and the
    output parameters are those of that other operation ("wrong element for
    the operation": still DTD-valid, NAME still that of the request).
    """
    if tag == 'EXPMETHODCALL':
        return _wrap(_cim_xml.EXPMETHODRESPONSE(name), export=True).toxml()
    if tag == 'METHODCALL':
        t, is_arr, v = pool['retval']
        children = []
        rv = S.build_value(t, v)
        if t != 'reference' and not is_arr and rv is not None:
            children.append(_cim_xml.RETURNVALUE(_value_el(t, rv), t))
        for oname, (ot, oarr, ov) in pool['outs']:
            bv = S.build_value(ot, ov)
            children.append(_cim_xml.PARAMVALUE(oname, _value_el(ot, bv), ot))
        return _wrap(_cim_xml.METHODRESPONSE(name, children)).toxml()
    kind = KIND.get(payload_of or name, 'void')
    if kind == 'export':
        kind = 'void'
    kids = ireturn_children(kind, pool, class_level)
    if mix and payload_of:
        # the right objects first, then those of the other operation: a
        # result list whose first element is right and a later one is not
        own_kind = KIND.get(name, 'void')
        own = None if own_kind in ('void', 'export') else ireturn_children(
            own_kind, pool, class_level if own_class_level is None
            else own_class_level)
        if own and kids:
            kids = list(own) + list(kids)
    children = []
    if kids is not None:
        children.append(_cim_xml.IRETURNVALUE(kids))
    if kind.startswith('open_'):
        eos = True if force_eos else pool['eos']
        children.append(_cim_xml.PARAMVALUE(
            'EndOfSequence', _cim_xml.VALUE('TRUE' if eos else 'FALSE'),
            'boolean'))
        children.append(_cim_xml.PARAMVALUE(
            'EnumerationContext',
            None if eos else _cim_xml.VALUE(pool['ctx']), 'string'))
    return _wrap(_cim_xml.IMETHODRESPONSE(name, children)).toxml()


# ---------------------------------------------------------------------------
# defect injection on the element tree

TAGS = ['VALUE', 'VALUE.NULL', 'VALUE.ARRAY', 'VALUE.REFERENCE', 'INSTANCE',
        'INSTANCENAME', 'INSTANCEPATH', 'CLASS', 'CLASSNAME', 'PROPERTY',
        'PROPERTY.ARRAY', 'PROPERTY.REFERENCE', 'QUALIFIER', 'KEYVALUE',
        'KEYBINDING', 'ERROR', 'IRETURNVALUE', 'RETURNVALUE', 'PARAMVALUE',
        'IMETHODRESPONSE', 'METHODRESPONSE', 'SIMPLERSP', 'MESSAGE', 'CIM',
        'HOST', 'NAMESPACE', 'LOCALNAMESPACEPATH', 'NAMESPACEPATH', 'SCOPE',
        'VALUE.NAMEDINSTANCE', 'VALUE.OBJECTWITHPATH', 'OBJECTPATH',
        'VALUE.INSTANCEWITHPATH', 'QUALIFIER.DECLARATION', 'METHOD',
        'PARAMETER', 'FOO', 'MULTIRSP', 'SIMPLEEXPRSP', 'EXPMETHODRESPONSE',
        'VALUE.OBJECT', 'VALUE.REFARRAY', 'LOCALINSTANCEPATH', 'CLASSPATH']
ATTR_VALUES = ['x', '', 'INF', '-1', '0', '7', '99999', '9' * 5000, '0x1G',
               '0x10', 'TRUE ', 'true', 'false', 'FALSE', 'maybe', 'uint8',
               'sint64', 'real32', 'string', 'boolean', 'datetime',
               'reference', 'char16', 'uint7', 'instance', 'object', 'obj',
               '1.5', '1e400', 'NaN', ' 5 ', 'é', 'numeric', 'integer',
               # digits for str.isdigit()/isdecimal() that int() may reject
               '\u00b2', '1\u00b9', '\u2460', '\uff11\uff12', '\u0663',
               '\u0969', '1_0', '+1', '-0', '٣.٥', '{0}', '%s']
TEXT_VALUES = ['', ' ', 'x', 'TRUE', 'false', 'INF', '-INF', 'NaN', '256',
               '-129', '65536', '-1', '1_0', '0x', '0xFF', '1e400', '1e-400',
               '9' * 5000, ' 12 ', '12abc', '20180911124613.128000+000',
               '20180911124613.128000+', '99999999999999.999999:000',
               '00000000000000.000000:00', '<INSTANCE/>',
               '<INSTANCE CLASSNAME="C"><PROPERTY NAME="p" TYPE="uint8">'
               '<VALUE>x</VALUE></PROPERTY></INSTANCE>',
               '<CLASS NAME="C"><FOO/></CLASS>', '<a>', '&', 'ab', 'aé',
               '\U0001F600', '1.5', '.5', '5.', '+', '--1', 'None',
               '\u00b2', '1\u00b9', '\u2460', '\uff11\uff12', '\u0663',
               '\u0969', '\u00bd', '{0}', '%s', '0x' + 'F' * 6000,
               '-0x' + '1' * 5000, '0X' + '0' * 5000 + '1']
ATTR_NAMES = ['NAME', 'TYPE', 'PARAMTYPE', 'CODE', 'DESCRIPTION',
              'ARRAYSIZE', 'CLASSNAME', 'VALUETYPE', 'PROPAGATED',
              'CLASSORIGIN', 'EmbeddedObject', 'EMBEDDEDOBJECT', 'ISARRAY',
              'REFERENCECLASS', 'SUPERCLASS', 'OVERRIDABLE', 'TOSUBCLASS',
              'CIMVERSION', 'DTDVERSION', 'PROTOCOLVERSION', 'ID', 'FOO',
              'xml:lang', 'TOINSTANCE', 'TRANSLATABLE']
N_MUT = 14

_MUT = st.tuples(st.integers(0, N_MUT - 1), st.integers(0, 10 ** 6),
                 st.integers(0, 10 ** 6), st.integers(0, 10 ** 6))


def g_mutations(draw):
    n = draw(st.sampled_from([0, 1, 1, 1, 2, 2, 3]))
    return [draw(_MUT) for _ in range(n)]


def mutate(xml_text, mutations):
    """
    Apply (kind, a, b, c) mutations to the element tree of xml_text; returns
    text (still well-formed XML).
    """
    if not mutations:
        return xml_text
    root = etree.fromstring(xml_text.encode('utf-8'))
    for kind, a, b, c in mutations:
        els = list(root.iter())
        el = els[a % len(els)]
        if kind == 0:
            el.tag = TAGS[b % len(TAGS)]
        elif kind == 1:
            keys = list(el.attrib)
            if keys:
                del el.attrib[keys[b % len(keys)]]
            else:
                with_attr = [e for e in els if e.attrib]
                if with_attr:
                    e = with_attr[a % len(with_attr)]
                    keys = list(e.attrib)
                    del e.attrib[keys[b % len(keys)]]
        elif kind == 2:
            with_attr = [e for e in els if e.attrib]
            if with_attr:
                e = with_attr[a % len(with_attr)]
                keys = list(e.attrib)
                e.set(keys[b % len(keys)], ATTR_VALUES[c % len(ATTR_VALUES)])
        elif kind == 3:
            name = ATTR_NAMES[b % len(ATTR_NAMES)]
            if name == 'xml:lang':
                name = '{http://www.w3.org/XML/1998/namespace}lang'
            el.set(name, ATTR_VALUES[c % len(ATTR_VALUES)])
        elif kind == 4:
            texty = [e for e in els if e.tag in ('VALUE', 'KEYVALUE', 'HOST')]
            e = texty[a % len(texty)] if texty and b % 4 else el
            e.text = TEXT_VALUES[c % len(TEXT_VALUES)]
        elif kind == 5:
            p = el.getparent()
            if p is not None:
                p.remove(el)
        elif kind == 6:
            p = el.getparent()
            if p is not None:
                p.insert(p.index(el), copy.deepcopy(el))
        elif kind == 7:
            p = el.getparent()
            if p is not None:
                new = etree.Element(TAGS[b % 12])
                if new.tag in ('VALUE', 'KEYVALUE'):
                    new.text = TEXT_VALUES[c % len(TEXT_VALUES)]
                if new.tag == 'ERROR':
                    new.set('CODE', ATTR_VALUES[c % len(ATTR_VALUES)])
                p.replace(el, new)
        elif kind == 8:
            err = etree.Element('ERROR')
            if b % 3:
                err.set('CODE', ATTR_VALUES[c % len(ATTR_VALUES)])
            if b % 2:
                err.set('DESCRIPTION', 'd')
            if c % 5 == 0:
                err.append(etree.fromstring(
                    '<INSTANCE CLASSNAME="CIM_Error"><PROPERTY NAME="x" '
                    'TYPE="uint8"><VALUE>%s</VALUE></PROPERTY></INSTANCE>'
                    % ('300' if c % 2 else '1')))
            el.insert(0, err)
        elif kind == 9:
            with_attr = [e for e in els if e.attrib]
            if with_attr:
                e = with_attr[a % len(with_attr)]
                keys = list(e.attrib)
                k = keys[b % len(keys)]
                v = e.attrib.pop(k)
                nk = ATTR_NAMES[c % len(ATTR_NAMES)]
                if nk != 'xml:lang':
                    e.set(nk, v)
        elif kind == 10:
            other = els[b % len(els)]
            if other is not el and el.getparent() is not None and \
                    el not in other.iterancestors() and other is not root:
                anc = list(other.iterancestors())
                if el not in anc:
                    el.getparent().remove(el)
                    other.append(el)
        elif kind == 12:
            # unwrap: an element is replaced by one of its children (e.g.
            # VALUE.NAMEDINSTANCE -> INSTANCE, INSTANCEPATH -> INSTANCENAME)
            wrappers = [e for e in els if len(e) and e.getparent() is not None
                        and e.tag.startswith(('VALUE.', 'INSTANCEPATH',
                                              'LOCALINSTANCEPATH',
                                              'OBJECTPATH', 'CLASSPATH',
                                              'IRETURNVALUE'))]
            if wrappers:
                w = wrappers[a % len(wrappers)]
                child = w[b % len(w)]
                w.getparent().replace(w, child)
        elif kind == 13:
            # wrap an object element into another wrapper kind
            objs = [e for e in els if e.getparent() is not None and
                    e.tag in ('INSTANCE', 'CLASS', 'INSTANCENAME',
                              'CLASSNAME', 'VALUE')]
            if objs:
                e = objs[a % len(objs)]
                wtag = ['VALUE.OBJECT', 'VALUE.NAMEDINSTANCE',
                        'VALUE.REFERENCE', 'OBJECTPATH', 'VALUE.ARRAY',
                        'VALUE.OBJECTWITHPATH', 'IRETURNVALUE'][b % 7]
                w = etree.Element(wtag)
                e.getparent().replace(e, w)
                w.append(e)
        elif kind == 11:
            pv = etree.Element('PARAMVALUE')
            pv.set('NAME', ['EndOfSequence', 'EnumerationContext', 'x',
                            'QueryResultClass', 'IRETURNVALUE',
                            'RETURNVALUE', 'ERROR'][b % 7])
            if c % 3:
                pv.set('PARAMTYPE', ATTR_VALUES[c % len(ATTR_VALUES)])
            if c % 2:
                v = etree.SubElement(pv, 'VALUE')
                v.text = TEXT_VALUES[c % len(TEXT_VALUES)]
            el.insert(b % (len(el) + 1), pv)
    return ('<?xml version="1.0" encoding="utf-8" ?>\n' +
            etree.tostring(root, encoding='unicode'))


# ---------------------------------------------------------------------------
# byte-level damage

N_DAMAGE = 9


def damage(body, how, a, b):
    "body: bytes of a valid response"
    n = len(body)
    if how == 0:
        return body[:a % (n + 1)]
    if how == 1:
        i = a % n if n else 0
        return body[:i] + bytes([b % 256]) + body[i + 1:]
    if how == 2:
        i = a % (n + 1)
        junk = [b'\xff', b'\xc3', b'\xe2\x82', b'\xed\xa0\x80', b'\x00',
                b'\xf8\x88\x80\x80\x80', b'<', b'&', b'&#0;', b'&#xD800;',
                b'\x0b', b']]>', b'<![CDATA[', b'<!--', b'<?pi ?>',
                b'\x00\x00', b'\x01\x02\x03', b'\xef\xbf\xbe\xef\xbf\xbf',
                b'\x0b\x0c<', b'\x1f\x1f&'][b % 20]
        return body[:i] + junk + body[i:]
    if how == 3:
        return body.decode('utf-8', 'replace').encode('utf-16')
    if how == 4:
        t = body.decode('utf-8', 'replace').replace(
            'encoding="utf-8"', 'encoding="%s"' % [
                'utf-16', 'latin-1', 'x-bogus', 'ascii', 'UTF-8'][b % 5])
        return t.encode('utf-8')
    if how == 5:
        doctype = (b'<!DOCTYPE CIM [<!ENTITY a "aaaaaaaaaa"><!ENTITY b '
                   b'"&a;&a;&a;&a;&a;&a;&a;&a;"><!ENTITY c "&b;&b;&b;&b;">]>')
        t = body.replace(b'<CIM ', doctype + b'<CIM ', 1)
        return t.replace(b'DESCRIPTION="', b'DESCRIPTION="&c;', 1)
    if how == 6:
        depth = 50 + a % 400
        return (b'<?xml version="1.0" encoding="utf-8" ?>' +
                b'<CIM CIMVERSION="2.0" DTDVERSION="2.0">' +
                b'<VALUE.ARRAY>' * depth + b'</VALUE.ARRAY>' * depth +
                b'</CIM>')
    if how == 7:
        return b''
    if how == 8:
        return body + [b'<x/>', b'\n\n', b'garbage', b'\x00'][b % 4]
    return body


# ---------------------------------------------------------------------------
# documented result types

PullResult = collections.namedtuple  # placeholder for isinstance by fields


def _is_nt(r, fields):
    return isinstance(r, tuple) and hasattr(r, '_fields') and \
        tuple(r._fields) == tuple(fields)


def _ctx_ok(c):
    return c is None or (isinstance(c, tuple) and len(c) == 2 and
                         isinstance(c[0], str) and
                         (c[1] is None or isinstance(c[1], str)))


def _insts(l, with_path=True):
    return isinstance(l, list) and all(
        isinstance(i, CIMInstance) and
        (not with_path or isinstance(i.path, CIMInstanceName)) for i in l)


def _paths(l):
    return isinstance(l, list) and all(isinstance(p, CIMInstanceName)
                                       for p in l)


def result_type_ok(op, call, r):
    "Is r a value of the documented result type of operation `op`?"
    a = call['args']
    if op in ('ModifyInstance', 'DeleteInstance', 'ModifyClass', 'CreateClass',
              'DeleteClass', 'SetQualifier', 'DeleteQualifier',
              'CloseEnumeration', 'ExportIndication'):
        return r is None
    if op in ('EnumerateInstances', 'IterEnumerateInstances',
              'IterAssociatorInstances', 'IterReferenceInstances'):
        return _insts(r)
    if op == 'ExecQuery':
        return _insts(r, with_path=False)
    if op in ('EnumerateInstanceNames', 'IterEnumerateInstancePaths',
              'IterAssociatorInstancePaths', 'IterReferenceInstancePaths'):
        return _paths(r)
    if op == 'GetInstance':
        return isinstance(r, CIMInstance)
    if op == 'CreateInstance':
        return isinstance(r, CIMInstanceName)
    if op in ('Associators', 'References'):
        if isinstance(a['ObjectName'], dict) and \
                a['ObjectName']['k'] == 'ipath':
            return _insts(r)
        return isinstance(r, list) and all(
            isinstance(t, tuple) and len(t) == 2 and
            isinstance(t[0], CIMClassName) and isinstance(t[1], CIMClass)
            for t in r)
    if op in ('AssociatorNames', 'ReferenceNames'):
        if isinstance(a['ObjectName'], dict) and \
                a['ObjectName']['k'] == 'ipath':
            return _paths(r)
        return isinstance(r, list) and all(isinstance(p, CIMClassName)
                                           for p in r)
    if op == 'InvokeMethod':
        return isinstance(r, tuple) and len(r) == 2 and \
            isinstance(r[1], NocaseDict)
    if op in ('OpenEnumerateInstances', 'OpenAssociatorInstances',
              'OpenReferenceInstances', 'PullInstancesWithPath'):
        # (a server that sends INSTANCE instead of VALUE.INSTANCEWITHPATH
        # gets instances without path; still a list of CIMInstance)
        return _is_nt(r, ('instances', 'eos', 'context')) and \
            _insts(r.instances, False) and isinstance(r.eos, bool) and \
            _ctx_ok(r.context)
    if op in ('OpenEnumerateInstancePaths', 'OpenAssociatorInstancePaths',
              'OpenReferenceInstancePaths', 'PullInstancePaths'):
        return _is_nt(r, ('paths', 'eos', 'context')) and \
            _paths(r.paths) and isinstance(r.eos, bool) and \
            _ctx_ok(r.context)
    if op == 'OpenQueryInstances':
        return _is_nt(r, ('instances', 'eos', 'context',
                          'query_result_class')) and \
            _insts(r.instances, False) and isinstance(r.eos, bool) and \
            _ctx_ok(r.context) and (r.query_result_class is None or
                                    isinstance(r.query_result_class,
                                               CIMClass))
    if op == 'PullInstances':
        return _is_nt(r, ('instances', 'eos', 'context')) and \
            _insts(r.instances, False) and isinstance(r.eos, bool) and \
            _ctx_ok(r.context)
    if op == 'IterQueryInstances':
        return isinstance(r, tuple) and len(r) == 2 and \
            (r[0] is None or isinstance(r[0], CIMClass)) and \
            _insts(r[1], False)
    if op == 'EnumerateClasses':
        return isinstance(r, list) and all(isinstance(c, CIMClass)
                                           for c in r)
    if op == 'EnumerateClassNames':
        return isinstance(r, list) and all(isinstance(c, str) for c in r)
    if op == 'GetClass':
        return isinstance(r, CIMClass)
    if op == 'EnumerateQualifiers':
        return isinstance(r, list) and all(
            isinstance(q, CIMQualifierDeclaration) for q in r)
    if op == 'GetQualifier':
        return isinstance(r, CIMQualifierDeclaration)
    raise ValueError(op)
