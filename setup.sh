#!/bin/bash
# Offline setup: make sure hypothesis (and lxml, already part of the repo's
# test requirements) are importable by /venv/bin/python.
cd "$(dirname "$0")" || exit 2
/venv/bin/python -c 'import hypothesis' 2>/dev/null || \
  /venv/bin/pip install --no-index --find-links /opt/veriftools/wheels hypothesis || exit 1
/venv/bin/python -c "import sys; sys.path.insert(0, '.deps'); import atheris" 2>/dev/null || /venv/bin/pip install -q --no-index --find-links /opt/veriftools/wheels --target .deps atheris || echo "atheris not available (thorough-tier add-on of C02 is skipped)"
/venv/bin/python -c 'import hypothesis, lxml, requests, pywbem, pywbem_mock; print("setup ok: hypothesis", hypothesis.__version__)'
