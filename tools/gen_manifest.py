#!/venv/bin/python
"""
Regenerate /verif/MANIFEST.json from the table below and validate it against
the schema.  A property is claimed as soon as pbt/cNN.py exists and is listed
in CLAIMED; everything else is listed under not_applicable with the reason.
"""
import json, os, sys
VERIF = os.path.dirname(os.path.dirname(os.path.abspath(__file__)))

# id -> (design section, technique, level text, level note)
CLAIMED = {}

def claim(pid, sec, technique, text, note):
    CLAIMED[pid] = (sec, technique, text, note)

exec(open(os.path.join(VERIF, 'tools', 'claims.py')).read())

props = [json.loads(l) for l in open(os.path.join(VERIF, 'properties.jsonl'))]
checks = []
na = []
for p in props:
    pid = p['id']
    if pid in CLAIMED and os.path.exists(os.path.join(VERIF, 'pbt', pid.lower() + '.py')):
        sec, technique, text, note = CLAIMED[pid]
        checks.append({
            'property_id': pid,
            'quick_cmd': './check %s --tier quick' % pid,
            'thorough_cmd': './check %s --tier thorough' % pid,
            'evidence_file': 'evidence/%s.json' % pid,
            'replay_cmd_template': './check %s --replay {path}' % pid,
            'engine': 'pbt',
            'level_claimed': {'category': 'exploration', 'text': text,
                              'design_ref': 'DESIGN.md ' + sec},
            'level_note': note,
            'technique': technique,
        })
    else:
        na.append({'property_id': pid,
                   'reason': 'check not built yet in this round (design in DESIGN.md section 4); the technique applies'})
manifest = {
    'version': 1,
    'setup_cmd': './setup.sh',
    'hooks': {
        'guard': 'PYWBEM_VERIF',
        'enable': 'none needed: checks import pywbem from /repo working tree; no guarded source hooks exist',
        'baseline_off_cmd': 'cd /repo && /venv/bin/python -m pytest -ra -q -p no:cacheprovider --timeout=900 --continue-on-collection-errors',
        'source_commits': [],
        'add_only': True,
    },
    'engines': [{
        'name': 'pbt', 'path': 'pbt/runner.py',
        'serves_properties': [c['property_id'] for c in checks],
        'kind_free_text': 'Hypothesis-driven property-based testing (recipes + explicit oracles, stateful histories as drawn step lists, finite sub-domains enumerated), sharded over 16 processes; failures bucketed by root-cause signature, known-findings aware',
    }],
    'checks': checks,
    'not_applicable': na,
    'notes': 'All checks run under /venv/bin/python against the /repo working tree (sys.path[0]=/repo). VERIF_SEED selects the Hypothesis seeds. Exit 2 + HARNESS-ERROR = harness problem, never a verdict.',
}
# an empty list is kept on purpose: it states that all 20 properties are claimed
json.dump(manifest, open(os.path.join(VERIF, 'MANIFEST.json'), 'w'), indent=1)
import jsonschema
jsonschema.validate(manifest, json.load(open('/root/.vp/MANIFEST.schema.json')))
print('MANIFEST.json: %d checks, %d not_applicable; valid' % (len(checks), len(na)))
