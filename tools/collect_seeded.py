#!/venv/bin/python
"""
Assemble /verif/seeded/<id>/<n>/{patch.diff, demo.py, meta.json} from the
seeding agents' deliverables (/tmp/seeded_out/<id>/) and the lead's
verification results (/tmp/seedcheck_final/<id>-<n>.json, written by
tools/seedcheck.py).  Only confirmed changes are kept: the patch applies to
/repo HEAD, the demo exits 0 without and non-zero with the patch, and (when
run) the repository's baseline tests still pass with it.
"""
import os, sys, json, shutil, glob
OUT = '/verif/seeded'
rows = []
for res in sorted(glob.glob('/tmp/seedcheck_final/*.json')):
    base = os.path.basename(res)[:-5]
    pid, n = base.split('-')
    try:
        r = json.load(open(res))
    except Exception as exc:
        print('skip', res, exc); continue
    src = '/tmp/seeded_out/%s' % pid
    ok = r.get('patch_applies') and r.get('demo_unpatched_exit') == 0 and r.get('demo_patched_exit') not in (0, None)
    if 'repo_tests_exit' in r and r['repo_tests_exit'] != 0:
        ok = False
    if not ok:
        print('NOT CONFIRMED', base, {k: r.get(k) for k in ('patch_applies', 'demo_unpatched_exit', 'demo_patched_exit', 'repo_tests_exit')})
        continue
    d = os.path.join(OUT, pid, n)
    os.makedirs(d, exist_ok=True)
    shutil.copy(os.path.join(src, 'change%s.diff' % n), os.path.join(d, 'patch.diff'))
    shutil.copy(os.path.join(src, 'demo%s.py' % n), os.path.join(d, 'demo.py'))
    meta = {}
    mp = os.path.join(src, 'meta%s.json' % n)
    if os.path.exists(mp):
        try:
            meta = json.load(open(mp))
        except Exception:
            meta = {'raw': open(mp).read()}
    caught = {p: c['violations'] for p, c in r.get('checks', {}).items()}
    meta_out = {
        'property': pid,
        'breaks': meta.get('clause') or meta.get('summary'),
        'summary': meta.get('summary'),
        'needs_to_manifest': meta.get('needs'),
        'seeding_agent_tests_run': meta.get('tests_run'),
        'lead_verification': {
            'how': 'tools/seedcheck.py patch.diff demo.py %s%s: fresh scratch worktree of /repo HEAD; demo must exit 0; git apply patch; demo must exit non-zero; %s./check %s --tier quick against the patched tree (PYWBEM_REPO)' % (
                pid, ' --tests' if 'repo_tests_exit' in r else '',
                'tools/run_repo_tests.sh on the patched tree (all BASELINE stable_pass tests must pass); ' if 'repo_tests_exit' in r else '', pid),
            'demo_exit_unpatched': r.get('demo_unpatched_exit'),
            'demo_exit_patched': r.get('demo_patched_exit'),
            'demo_output_patched_tail': r.get('demo_patched_tail'),
            'repo_tests_exit_patched': r.get('repo_tests_exit', 'not run by the lead for this change'),
            'caught_by_quick_tier': {p: bool(v) for p, v in caught.items()},
            'violation_lines': caught,
        },
    }
    json.dump(meta_out, open(os.path.join(d, 'meta.json'), 'w'), indent=1)
    rows.append((pid, n, {p: bool(v) for p, v in caught.items()}))
for row in rows:
    print(row)
