#!/bin/bash
# Run the repository's test suite in parallel and compare with the pinned
# baseline (/root/.vp/BASELINE.json stable_pass): 16 private copies of the
# working tree (tests share scratch files under tests/, so they cannot share
# one tree), test files distributed over them, one pytest process per file.
# (xdist cannot be used: collection is not deterministic.)
# Usage: tools/run_repo_tests.sh [repo-dir]     exit 0 = every baseline test passed
REPO=${1:-/repo}
OUT=$(mktemp -d /tmp/repotests.XXXXXX)
trap 'rm -rf "$OUT"' EXIT
cd "$REPO" || exit 2
{ find tests/unittest tests/leaktest tests/perftest tests/resourcetest -name 'test_*.py' ; echo tests/functiontest; } | sort -u > "$OUT/files"
N=16
# files that start listeners on fixed ports share bucket 0 (run serially)
grep -E 'test_indicationlistener|perftest/test_indications|test_subscriptionmanager' "$OUT/files" > "$OUT/listener"
grep -v -E 'test_indicationlistener|perftest/test_indications|test_subscriptionmanager' "$OUT/files" | xargs ls -dS > "$OUT/sorted"
for i in $(seq 0 $((N-1))); do
  mkdir -p "$OUT/c$i"
  rsync -a --exclude .git --exclude '*.pyc' --exclude __pycache__ "$REPO/" "$OUT/c$i/"
  if [ $i -eq 0 ]; then cp "$OUT/listener" "$OUT/list0"; else
  awk -v n=$((N-1)) -v i=$((i-1)) 'NR%n==i' "$OUT/sorted" > "$OUT/list$i"; fi
done
for i in $(seq 0 $((N-1))); do
  ( cd "$OUT/c$i" && while read -r f; do
      g=$(echo "$f" | tr / _)
      PYTHONPATH="$OUT/c$i" /venv/bin/python -m pytest -q -p no:cacheprovider --timeout=900 --junitxml="$OUT/$g.xml" "$f" > "$OUT/$g.log" 2>&1
      echo "$? $f" >> "$OUT/rc"
    done < "$OUT/list$i" ) &
done
wait
cat > "$OUT/eval.py" <<'PY'
import sys, glob, json, re
import xml.etree.ElementTree as ET
out = sys.argv[1]
base = set(json.load(open('/root/.vp/BASELINE.json'))['stable_pass'])
passed, failed = set(), set()
for f in glob.glob(out + '/*.xml'):
    for tc in ET.parse(f).getroot().iter('testcase'):
        tid = tc.get('classname', '') + '::' + tc.get('name', '')
        tid = re.sub(re.escape(out) + r'/c\d+', '/repo', tid)
        bad = [c.tag for c in tc if c.tag in ('failure', 'error', 'skipped')]
        (failed if bad else passed).add(tid)
missing = sorted(base - passed)
print('passed: %d  not-passed: %d  baseline: %d  baseline tests not passed: %d'
      % (len(passed), len(failed), len(base), len(missing)))
for t in missing[:40]:
    print('  NOT PASSED:', t)
sys.exit(1 if missing else 0)
PY
/venv/bin/python "$OUT/eval.py" "$OUT"
rc=$?
if [ $rc -ne 0 ]; then
  # timing-sensitive tests (listener, response delay) fail now and then when
  # all 16 cores are busy: run the files that reported failures once more,
  # one after the other, and evaluate again
  echo "--- re-running files with failures serially ---"
  grep -v '^0 ' "$OUT/rc" | cut -d' ' -f2- | while read -r f; do
    g=$(echo "$f" | tr / _)
    ( cd "$OUT/c0" && PYTHONPATH="$OUT/c0" /venv/bin/python -m pytest -q -p no:cacheprovider --timeout=900 --junitxml="$OUT/$g.xml" "$f" > "$OUT/$g.log" 2>&1 )
  done
  /venv/bin/python "$OUT/eval.py" "$OUT"
  rc=$?
fi
[ $rc -eq 0 ] && echo "ALL BASELINE TESTS PASS"
exit $rc
