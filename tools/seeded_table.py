#!/venv/bin/python
"Print the markdown table of DESIGN.md 7.4 from /verif/seeded/*/*/meta.json"
import json, glob, os, re
rows = []
for mp in sorted(glob.glob('/verif/seeded/*/*/meta.json')):
    m = json.load(open(mp))
    pid = m['property']; n = os.path.basename(os.path.dirname(mp))
    lv = m['lead_verification']
    sigs = []
    for p, lines in lv['violation_lines'].items():
        for l in lines[:2]:
            mm = re.search(r'signature=(\S+)', l)
            if mm:
                sigs.append('%s: `%s`' % (p, mm.group(1)[:90]))
    caught = ', '.join(p for p, v in lv['caught_by_quick_tier'].items() if v) or '**not caught**'
    summ = (m.get('summary') or '').replace('\n', ' ').replace('|', '/')
    needs = (m.get('needs_to_manifest') or '').replace('\n', ' ').replace('|', '/')
    rows.append('| %s/%s | %s | %s | %s | %s |' % (pid, n, summ[:260], needs[:220], caught, '<br>'.join(sigs[:3])))
print('| Seeded change | What it does | Needs | Caught by (quick tier) | Signatures |')
print('|---|---|---|---|---|')
print('\n'.join(rows))
