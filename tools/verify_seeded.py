#!/venv/bin/python
"""
Last step for /verif/seeded: every kept patch must still apply to the final
/repo HEAD and its demonstration must still pass without and fail with it.
One scratch worktree under /tmp (removed afterwards); the result is recorded
in each meta.json under 'final_head_verification'.
"""
import glob, json, os, subprocess, tempfile
head = subprocess.check_output(['git', '-C', '/repo', 'rev-parse', '--short', 'HEAD'], text=True).strip()
wt = tempfile.mkdtemp(prefix='wt_verify_'); os.rmdir(wt)
subprocess.check_call(['git', '-C', '/repo', 'worktree', 'add', '-q', '--detach', wt, 'HEAD'])
bad = []
try:
    env = dict(os.environ, PYTHONPATH=wt, PYTHONHASHSEED='0')
    for mp in sorted(glob.glob('/verif/seeded/*/*/meta.json')):
        d = os.path.dirname(mp)
        demo, patch = os.path.join(d, 'demo.py'), os.path.join(d, 'patch.diff')
        r0 = subprocess.run(['/venv/bin/python', demo], cwd=wt, env=env, capture_output=True, text=True, timeout=900)
        ap = subprocess.run(['git', '-C', wt, 'apply', patch], capture_output=True, text=True)
        r1 = subprocess.run(['/venv/bin/python', demo], cwd=wt, env=env, capture_output=True, text=True, timeout=900) if ap.returncode == 0 else None
        subprocess.check_call(['git', '-C', wt, 'checkout', '-q', '--', '.'])
        subprocess.call(['git', '-C', wt, 'clean', '-fdq'])
        res = {'repo_head': head, 'patch_applies': ap.returncode == 0,
               'demo_exit_unpatched': r0.returncode,
               'demo_exit_patched': None if r1 is None else r1.returncode}
        ok = res['patch_applies'] and r0.returncode == 0 and r1 is not None and r1.returncode != 0
        res['ok'] = ok
        m = json.load(open(mp)); m['final_head_verification'] = res
        json.dump(m, open(mp, 'w'), indent=1)
        print(('ok  ' if ok else 'BAD '), d[len('/verif/seeded/'):], res)
        if not ok:
            bad.append(d)
finally:
    subprocess.call(['git', '-C', '/repo', 'worktree', 'remove', '--force', wt])
print('%d not ok' % len(bad))
