#!/venv/bin/python
"""
Confirm a seeded change and run checks against it.

  tools/seedcheck.py <patch.diff> <demo.py> <Cnn> [<Cmm> ...] [--tier quick]

1. fresh scratch worktree of /repo HEAD: demo must exit 0
2. apply the patch: demo must exit non-zero
3. run each named check against the patched tree (PYWBEM_REPO) and print
   the VIOLATION lines
The worktree is removed afterwards; evidence/replays written by the runs
against the patched tree are discarded.
"""
import sys, os, subprocess, tempfile, argparse, json
ap = argparse.ArgumentParser()
ap.add_argument('patch'); ap.add_argument('demo'); ap.add_argument('props', nargs='+')
ap.add_argument('--tier', default='quick')
ap.add_argument('--tests', action='store_true', help='also run the repository test suite on the patched tree')
a = ap.parse_args()
wt = tempfile.mkdtemp(prefix='wt_seed_'); os.rmdir(wt)
subprocess.check_call(['git', '-C', '/repo', 'worktree', 'add', '-q', '--detach', wt, 'HEAD'])
out = {'patch': a.patch, 'demo': a.demo}
try:
    env = dict(os.environ, PYTHONPATH=wt, PYTHONHASHSEED='0')
    r0 = subprocess.run(['/venv/bin/python', os.path.abspath(a.demo)], cwd=wt, env=env, capture_output=True, text=True, timeout=600)
    out['demo_unpatched_exit'] = r0.returncode
    ap_ = subprocess.run(['git', '-C', wt, 'apply', os.path.abspath(a.patch)], capture_output=True, text=True)
    out['patch_applies'] = ap_.returncode == 0
    if ap_.returncode != 0:
        print(ap_.stderr)
    r1 = subprocess.run(['/venv/bin/python', os.path.abspath(a.demo)], cwd=wt, env=env, capture_output=True, text=True, timeout=600)
    out['demo_patched_exit'] = r1.returncode
    out['demo_patched_tail'] = (r1.stdout + r1.stderr)[-400:]
    if a.tests:
        # in a private network namespace: the listener tests bind fixed
        # ports and would collide with other test runs on this machine
        rt = subprocess.run(['unshare', '-rn', 'sh', '-c',
                             'ip link set lo up; exec /verif/tools/run_repo_tests.sh "$0"', wt],
                            capture_output=True, text=True)
        out['repo_tests_exit'] = rt.returncode
        out['repo_tests_tail'] = rt.stdout[-600:]
    out['checks'] = {}
    for p in a.props:
        env2 = dict(os.environ, PYWBEM_REPO=wt)
        r = subprocess.run(['./check', p, '--tier', a.tier], cwd='/verif', env=env2, capture_output=True, text=True)
        viol = [l for l in r.stdout.splitlines() if l.startswith('VIOLATION') or l.startswith('HARNESS')]
        out['checks'][p] = {'exit': r.returncode, 'violations': [v[:260] for v in viol[:8]], 'n_violation_lines': len(viol)}
finally:
    subprocess.call(['git', '-C', '/repo', 'worktree', 'remove', '--force', wt])
    import shutil; shutil.rmtree('/tmp/verif_out_' + os.path.basename(wt), ignore_errors=True)
print(json.dumps(out, indent=1))
