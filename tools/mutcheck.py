#!/venv/bin/python
"""
Sensitivity testing: apply a textual mutation to a scratch worktree of /repo
and run a check against it.

  tools/mutcheck.py C01 pywbem/_cim_xml.py 'old text' 'new text' [--only sub] [--tier quick]
  tools/mutcheck.py C01 --patch file.diff

Prints the VIOLATION lines (or 'NOT CAUGHT').  The worktree is removed.
"""
import sys, os, subprocess, tempfile, shutil, argparse
ap = argparse.ArgumentParser()
ap.add_argument('prop')
ap.add_argument('file', nargs='?')
ap.add_argument('old', nargs='?')
ap.add_argument('new', nargs='?')
ap.add_argument('--patch')
ap.add_argument('--only', action='append')
ap.add_argument('--tier', default='quick')
ap.add_argument('--count', type=int, default=1, help='expected number of occurrences of old')
a = ap.parse_args()
wt = tempfile.mkdtemp(prefix='wt_mut_')
os.rmdir(wt)
subprocess.check_call(['git', '-C', '/repo', 'worktree', 'add', '-q', '--detach', wt, 'HEAD'])
try:
    if a.patch:
        subprocess.check_call(['git', '-C', wt, 'apply', os.path.abspath(a.patch)])
    else:
        p = os.path.join(wt, a.file)
        s = open(p).read()
        n = s.count(a.old)
        if n != a.count:
            print('MUTATION ERROR: %d occurrences of old text (expected %d)' % (n, a.count)); sys.exit(3)
        open(p, 'w').write(s.replace(a.old, a.new))
    env = dict(os.environ, PYWBEM_REPO=wt)
    cmd = ['./check', a.prop, '--tier', a.tier]
    for o in a.only or []:
        cmd += ['--only', o]
    r = subprocess.run(cmd, cwd='/verif', env=env, capture_output=True, text=True)
    lines = [l for l in r.stdout.splitlines() if l.startswith('VIOLATION') or l.startswith('HARNESS')]
    print('exit=%d' % r.returncode)
    for l in lines[:6]:
        print(l[:300])
    if not lines:
        print('NOT CAUGHT')
        print(r.stdout[-500:])
finally:
    subprocess.call(['git', '-C', '/repo', 'worktree', 'remove', '--force', wt])
    import shutil; shutil.rmtree('/tmp/verif_out_' + os.path.basename(wt), ignore_errors=True)
